/-
drv_c20: executable model of the work split of ErrorFunction::eval and of the per-thread-heap
neighbour search (Model/ParRoutines.lean).  One op line in, one observation line out.
-/
import SharkVerif.Model.ParRoutines
import Driver.Util
open SharkVerif

def joinC (l : List String) : String := String.intercalate "," l

def runLine (line : String) : String :=
  let ts := (line.splitOn " ").filter (· ≠ "")
  match ts with
  | ["split", b, t] =>
    match b.toNat?, t.toNat? with
    | some b, some t =>
      if b ≥ 1 ∧ t ≥ 1 then
        s!"split B={b} T={t} ranges={joinC ((ParModel.ranges b t).map fun (a, z) => s!"{a}-{z}")}"
      else "bad-op"
    | _, _ => "bad-op"
  | ["splitw", b, t] =>
    -- one iteration per batch, any assignment: the specification only says every batch is covered once
    match b.toNat?, t.toNat? with
    | some b, some t => if b ≥ 1 ∧ t ≥ 1 then s!"splitw B={b} T={t} covered={b}" else "bad-op"
    | _, _ => "bad-op"
  | "knn" :: t :: k :: bs :: "|" :: xs =>
    match t.toNat?, k.toNat?, bs.toNat?, xs.mapM String.toInt? with
    | some t, some k, some bs, some xs =>
      if t ≥ 1 ∧ k ≥ 1 ∧ k ≤ xs.length ∧ bs ≥ 1 ∧ xs.length % bs = 0 then
        let d := xs.map fun x => (x * x).toNat
        let batches := ParModel.chunks d.length bs d
        let keys := ParModel.knn t k batches
        s!"knn T={t} k={k} batches={batches.length} keys={joinC (keys.map fun q => showFloat (Float.sqrt (Float.ofNat q)))}"
      else "bad-op"
    | _, _, _, _ => "bad-op"
  | [] => ""
  | _ => "bad-op"

partial def loop (h : IO.FS.Stream) (out : IO.FS.Stream) : IO Unit := do
  let line ← h.getLine
  if line.isEmpty then return
  let l := (line.dropRightWhile (fun c => c == '\n' || c == '\r'))
  if l.trim ≠ "" then out.putStrLn (runLine l)
  loop h out

def main : IO Unit := do
  loop (← IO.getStdin) (← IO.getStdout)
