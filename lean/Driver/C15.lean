/-
Line-protocol driver for the C15 models (closed-form trainers), `drv_c15`.

Input line:   `<op line> || <observation line of harness/c15*.cpp>`
Output line:  `ok exact=<a> tol=<b> rel=<c> tags=<…>`   or   `FAIL <what>`

The driver evaluates the `Rat` model of `Model/Trainers.lean` on the integer dataset of
the op line and compares with what the real trainer returned (doubles printed exactly
as `m e`, value `m·2^e`):
  * `I=0` (no FE_INEXACT inside the Shark calls): every value must EQUAL the model's;
  * `I=1`: values that the model determines are compared with a relative tolerance,
    values that are only specified (results of `sqrt`, of the semi-definite solver, of
    the eigen-solver) are checked against their specification in exact rational
    arithmetic on the returned doubles, with a relative tolerance (`rel=` counts them).
Without the `|| …` part the model's own values are printed (for replays).
-/
import SharkVerif.Model.Trainers
import SharkVerif.Model.TrainersKernel
open SharkVerif.Trainers

/-- a value printed by the harness -/
inductive V where
  | fin (q : Rat) | nan | inf | ninf
  deriving Inhabited

def pow2 (e : Int) : Rat := if e ≥ 0 then ((2 ^ e.toNat : Nat) : Rat) else 1 / ((2 ^ (-e).toNat : Nat) : Rat)

def V.get : V → Rat | .fin q => q | _ => 0
def V.isFin : V → Bool | .fin _ => true | _ => false

def rabs (q : Rat) : Rat := if q < 0 then -q else q

structure Obs where
  status : String := "bad"
  inexact : Bool := true
  groups : List (String × Array V) := []

def parseVals : Nat → List String → Option (Array V × List String)
  | 0, rest => some (#[], rest)
  | n + 1, m :: e :: rest => do
    let v ← match m with
      | "nan" => some V.nan | "inf" => some V.inf | "-inf" => some V.ninf
      | _ => do let mi ← m.toInt?; let ei ← e.toInt?; some (V.fin (mi * pow2 ei))
    let (vs, r) ← parseVals n rest
    some (#[v] ++ vs, r)
  | _, _ => none

partial def parseGroups : List String → Option (List (String × Array V))
  | [] => some []
  | name :: cnt :: rest => do
    let n ← cnt.toNat?
    let (vs, r) ← parseVals n rest
    let gs ← parseGroups r
    some ((name, vs) :: gs)
  | _ => none

def parseObs (toks : List String) : Obs :=
  match toks with
  | ["exc"] => { status := "exc" }
  | "ok" :: i :: rest =>
    match parseGroups rest with
    | some gs => { status := "ok", inexact := i != "I=0", groups := gs }
    | none => {}
  | _ => {}

def Obs.group (o : Obs) (name : String) : Array V := (o.groups.lookup name).getD #[]

/-- running verdict of one case -/
structure Verdict where
  exact : Nat := 0
  tol : Nat := 0
  rel : Nat := 0
  tags : List String := []
  fails : List String := []

def Verdict.tag (v : Verdict) (t : String) : Verdict := if v.tags.contains t then v else { v with tags := v.tags ++ [t] }
def Verdict.fail (v : Verdict) (t : String) : Verdict := if v.fails.length < 3 then { v with fails := v.fails ++ [t] } else v

def showRat (q : Rat) : String := if q.den = 1 then toString q.num else s!"{q.num}/{q.den}"
def showV : V → String | .fin q => showRat q | .nan => "nan" | .inf => "inf" | .ninf => "-inf"

def tolFun : Rat := 1 / 100000000000      -- 1e-11, values the model determines
def tolRel : Rat := 1 / 1000000000        -- 1e-9, specification checks behind sqrt / solver / eigen-solver

/-- a value the model determines: equal if the run was exact, close otherwise -/
def Verdict.value (v : Verdict) (inexact : Bool) (what : String) (expected : Rat) (got : V) : Verdict :=
  match got with
  | .fin g =>
    if g = expected then { v with exact := v.exact + 1 }
    else if inexact ∧ rabs (g - expected) ≤ tolFun * (1 + rabs expected) then { v with tol := v.tol + 1 }
    else v.fail s!"{what}: model {showRat expected} impl {showRat g}{if inexact then "" else " (exact run)"}"
  | g => v.fail s!"{what}: model {showRat expected} impl {showV g}"

/-- a specification `lhs = rhs` evaluated on returned doubles; `scale` bounds the magnitude of the terms -/
def Verdict.spec (v : Verdict) (what : String) (lhs rhs scale : Rat) : Verdict :=
  if lhs = rhs then { v with rel := v.rel + 1 }
  else if rabs (lhs - rhs) ≤ tolRel * (1 + scale) then { v with rel := v.rel + 1 }
  else v.fail s!"{what}: {showRat lhs} vs {showRat rhs}"

def Verdict.line (v : Verdict) : String :=
  if v.fails.isEmpty then s!"ok exact={v.exact} tol={v.tol} rel={v.rel} tags={",".intercalate v.tags}"
  else "FAIL " ++ " ; ".intercalate v.fails

/-! ### op-line parsing -/

structure Table where
  n : Nat
  d : Nat
  extra : Nat
  sizes : List Nat
  rows : List (List Int)        -- n rows of d + extra values
  scale : Rat := 1              -- op name suffix `@s`: a data value `v` stands for `v·2^-s`

/-- `n d nb s_1 … s_nb` then row-major values -/
def parseTable (a : List Int) (extra : Nat) (sh : Int := 0) : Option Table := do
  match a with
  | n :: d :: nb :: rest =>
    if n ≤ 0 ∨ d < 0 ∨ nb ≤ 0 then none else
    let n := n.toNat; let d := d.toNat; let nb := nb.toNat
    if rest.length ≠ nb + n * (d + extra) then none else
    let sizes := (rest.take nb).map Int.toNat
    if sizes.any (· = 0) ∨ sizes.foldl (· + ·) 0 ≠ n then none else
    let vals := (rest.drop nb).toArray
    let rows := (List.range n).map fun i => (List.range (d + extra)).map fun j => vals[i * (d + extra) + j]!
    some { n, d, extra, sizes, rows, scale := pow2 (-sh) }
  | _ => none

/-- cut a list into consecutive batches of the given sizes -/
def cut {α : Type} : List Nat → List α → List (List α)
  | [], _ => []
  | s :: ss, l => l.take s :: cut ss (l.drop s)

def Table.inputs (t : Table) : List (List Vec) :=
  cut t.sizes (t.rows.map fun r => (r.take t.d).map fun (v : Int) => (v : Rat) * t.scale)

/-- regression data: inputs and labels are both scaled -/
def Table.labeled (t : Table) : List (List (Vec × Vec)) :=
  cut t.sizes (t.rows.map fun r =>
    ((r.take t.d).map fun (v : Int) => (v : Rat) * t.scale, (r.drop t.d).map fun (v : Int) => (v : Rat) * t.scale))

/-- tabulate a matrix once (closures over the model functions would recompute on every access) -/
def tab2 (n k : Nat) (f : Nat → Nat → Rat) : Array (Array Rat) :=
  (Array.range n).map fun i => (Array.range k).map fun j => f i j
def Array.at2 (t : Array (Array Rat)) (i j : Nat) : Rat := (t.getD i #[]).getD j 0

def isConstCol (bs : List (List Vec)) (j : Nat) : Bool := colMin bs j = colMax bs j

/-! ### the ops -/

def opMeanVar (sh : Int) (a : List Int) (o : Option Obs) : String :=
  match parseTable a 0 sh with
  | none => "bad-op"
  | some t =>
    let bs := t.inputs
    let d := t.d
    match o with
    | none =>
      "model mean " ++ " ".intercalate ((List.range d).map fun j => showRat (mean bs j)) ++
      " var " ++ " ".intercalate ((List.range d).map fun j => showRat (variance bs j))
    | some o =>
      if o.status ≠ "ok" then "FAIL status " ++ o.status else
      let gm := o.group "mean"; let gv := o.group "var"; let gc := o.group "cov"
      if gm.size ≠ d ∨ gv.size ≠ d ∨ gc.size ≠ d * d then "FAIL shape" else Id.run do
        let mut v : Verdict := {}
        if t.sizes.length > 1 then v := v.tag "multi-batch"
        if ¬ o.inexact then v := v.tag "exact-run"
        for j in [0:d] do
          v := v.value o.inexact s!"mean[{j}]" (mean bs j) gm[j]!
          v := v.value o.inexact s!"var[{j}]" (variance bs j) gv[j]!
          if isConstCol bs j then v := v.tag "const-col"
          for i in [0:d] do
            v := v.value o.inexact s!"cov[{i},{j}]" (covariance bs i j) gc[i * d + j]!
        return v.line

def opUnitVar (sh : Int) (a : List Int) (o : Option Obs) : String :=
  match a with
  | zm :: rest =>
    match parseTable rest 0 sh with
    | none => "bad-op"
    | some t =>
      let bs := t.inputs
      let d := t.d
      match o with
      | none => "model var " ++ " ".intercalate ((List.range d).map fun j => showRat (variance bs j))
      | some o =>
        if t.n < 2 then (if o.status = "exc" then "ok exact=0 tol=0 rel=0 tags=exception" else "FAIL expected exception, got " ++ o.status) else
        if o.status ≠ "ok" then "FAIL status " ++ o.status else
        let gd := o.group "diag"; let go := o.group "offset"
        if gd.size ≠ d ∨ go.size ≠ d then "FAIL shape" else Id.run do
          let mut v : Verdict := {}
          if t.sizes.length > 1 then v := v.tag "multi-batch"
          if ¬ o.inexact then v := v.tag "exact-run"
          for j in [0:d] do
            let var := variance bs j
            let m := mean bs j
            if ¬ gd[j]!.isFin ∨ ¬ go[j]!.isFin then v := v.fail s!"non-finite normalizer entry {j}" else
            -- the returned diagonal determines the value `sqrt` took: s = 1/diag; the model is
            -- evaluated with that `sqrt` and its specification s*s = var is checked
            let dg := gd[j]!.get
            if var = 0 then
              v := v.tag "const-col"
              -- model: sqrt 0 = 0 (IEEE) => diagonal 0, offset 0
              let mdl := unitVariance (fun _ => 0) (zm = 1) bs
              v := v.value false s!"diag[{j}]" (mdl.diag j) gd[j]!
              v := v.value false s!"offset[{j}]" (mdl.offset j) go[j]!
            else
              if dg = 0 then v := v.fail s!"diag[{j}] = 0 on a non-constant column" else
              let s := 1 / dg
              let mdl := unitVariance (fun _ => s) (zm = 1) bs
              v := v.spec s!"sqrt-spec[{j}] s*s = var" (s * s) var var
              if dg < 0 then v := v.fail s!"negative diagonal {j}"
              v := v.value true s!"diag[{j}]" (mdl.diag j) gd[j]!
              v := v.value true s!"offset[{j}]" (mdl.offset j) go[j]!
              if ¬ o.inexact then
                if s * s = var ∧ mdl.offset j = go[j]!.get then v := v.tag "exact-sqrt" else v := v.fail s!"exact run but sqrt-spec/offset inexact at {j}"
              let _ := m
          return v.line
  | _ => "bad-op"

def opUnitInt (sh : Int) (a : List Int) (o : Option Obs) : String :=
  match parseTable a 0 sh with
  | none => "bad-op"
  | some t =>
    let bs := t.inputs
    let d := t.d
    let mdl := unitInterval bs
    let pinned := unitIntervalPinned bs
    match o with
    | none => "model diag " ++ " ".intercalate ((List.range d).map fun j => showRat (mdl.diag j)) ++
              " offset " ++ " ".intercalate ((List.range d).map fun j => showRat (mdl.offset j))
    | some o =>
      if t.n < 2 then (if o.status = "exc" then "ok exact=0 tol=0 rel=0 tags=exception" else "FAIL expected exception, got " ++ o.status) else
      if o.status ≠ "ok" then "FAIL status " ++ o.status else
      let gd := o.group "diag"; let go := o.group "offset"
      if gd.size ≠ d ∨ go.size ≠ d then "FAIL shape" else Id.run do
        let mut v : Verdict := {}
        if t.sizes.length > 1 then v := v.tag "multi-batch"
        if ¬ o.inexact then v := v.tag "exact-run"
        for j in [0:d] do
          v := v.value o.inexact s!"diag[{j}]" (mdl.diag j) gd[j]!
          if isConstCol bs j then
            v := v.tag "const-col"
            match go[j]! with
            | .fin g =>
              if g = mdl.offset j then v := { v with exact := v.exact + 1 }
              else if g = pinned.offset j then
                v := v.fail s!"unitinterval-constant-column: offset[{j}] = {showRat g} is the pinned formula -min+1/2, the column (value {showRat (colMin bs j)}) is mapped to {showRat g}, outside [0,1]; model (repaired) {showRat (mdl.offset j)}"
              else v := v.fail s!"offset[{j}]: model {showRat (mdl.offset j)} impl {showRat g}"
            | g => v := v.fail s!"offset[{j}] impl {showV g}"
          else
            v := v.value o.inexact s!"offset[{j}]" (mdl.offset j) go[j]!
        return v.line

def opLinReg (sh : Int) (a : List Int) (o : Option Obs) : String :=
  match a with
  | lamNum :: lamShift :: k :: rest =>
    if lamNum < 0 ∨ lamShift < 0 ∨ k ≤ 0 then "bad-op" else
    let k := k.toNat
    match parseTable rest k sh with
    | none => "bad-op"
    | some t =>
      let bs := t.labeled
      let d := t.d
      let lam : Rat := lamNum * pow2 (-lamShift)
      let At := tab2 (d + 1) (d + 1) (linregA bs d lam)
      let Rt := tab2 (d + 1) k (linregRhs bs d)
      let A := At.at2
      let R := Rt.at2
      -- `linregTrain gaussSolve bs d k lam` unfolded on the tabulated system (same definition, no recomputation)
      let betat := tab2 (d + 1) k (gaussSolve (d + 1) k A R)
      let beta := betat.at2
      let rk := rank (d + 1) A
      match o with
      | none => s!"model rank {rk} beta " ++ " ".intercalate
          ((List.range (d + 1)).flatMap fun j => (List.range k).map fun c => showRat (beta j c))
      | some o =>
        if o.status ≠ "ok" then "FAIL status " ++ o.status else
        let gW := o.group "W"; let gb := o.group "b"
        if gW.size ≠ k * d ∨ gb.size ≠ k then "FAIL shape" else Id.run do
          let mut v : Verdict := {}
          if t.sizes.length > 1 then v := v.tag "multi-batch"
          if ¬ o.inexact then v := v.tag "exact-run"
          v := v.tag (if rk = d + 1 then "full-rank" else "rank-deficient")
          if lam = 0 then v := v.tag "lambda=0"
          if d > t.n then v := v.tag "d>n"
          if gW.any (fun x => ¬ x.isFin) ∨ gb.any (fun x => ¬ x.isFin) then return "FAIL linreg-nonfinite weights"
          -- the returned weights as beta (d+1) x k
          let gott := tab2 (d + 1) k fun j c => if j < d then gW[c * d + j]!.get else gb[c]!.get
          let got := gott.at2
          -- the model's own solver satisfies its specification on this system (consistency witness)
          for i in [0:d + 1] do
            for c in [0:k] do
              if matMul (d + 1) A beta i c ≠ R i c then v := v.fail s!"gaussSolve violates A*beta = rhs at ({i},{c})"
          -- specification of the semi-definite solve on the returned weights: A * got = XtL
          for i in [0:d + 1] do
            for c in [0:k] do
              let scale := (rsum (d + 1) fun j => rabs (A i j * got j c)) + rabs (R i c)
              v := v.spec s!"normal-equations[{i},{c}]" (matMul (d + 1) A got i c) (R i c) scale
          -- nonsingular system: the solution is unique, compare values
          if rk = d + 1 then
            let mx := (List.range (d + 1)).foldl (fun m j => (List.range k).foldl (fun m c => max m (rabs (beta j c))) m) 0
            for j in [0:d + 1] do
              for c in [0:k] do
                if rabs (got j c - beta j c) ≤ (1 / 10000000) * (1 + mx) then v := { v with tol := v.tol + 1 }
                else v := v.fail s!"beta[{j},{c}]: model {showRat (beta j c)} impl {showRat (got j c)}"
          return v.line
  | _ => "bad-op"


def ratToFloat (q : Rat) : Float := Float.ofInt q.num / Float.ofNat q.den

/-- `whiten` / `zca`: `tNum tShift | table` -/
def opWhiten (zca : Bool) (sh : Int) (a : List Int) (o : Option Obs) : String :=
  match a with
  | tNum :: tShift :: rest =>
    match parseTable rest 0 sh with
    | none => "bad-op"
    | some t =>
      let bs := t.inputs
      let d := t.d
      let target : Rat := tNum * pow2 (-tShift)
      let covt := tab2 d d (covariance bs)
      let cov := covt.at2
      let rk := rank d cov
      match o with
      | none => s!"model rank {rk}"
      | some o =>
        if t.n < d + 1 ∨ target ≤ 0 then (if o.status = "exc" then "ok exact=0 tol=0 rel=0 tags=exception" else "FAIL expected exception, got " ++ o.status) else
        if o.status ≠ "ok" then "FAIL status " ++ o.status else
        let gr := o.group "rank"; let gW := o.group "W"; let gb := o.group "b"
        let r := if gr.size = 1 then (gr[0]!.get.num.toNat) else 0
        if gW.size ≠ r * d ∨ gb.size ≠ r then "FAIL shape" else Id.run do
          let mut v : Verdict := {}
          if t.sizes.length > 1 then v := v.tag "multi-batch"
          v := v.tag (if rk = d then "full-rank" else "singular-cov")
          if gW.any (fun x => ¬ x.isFin) ∨ gb.any (fun x => ¬ x.isFin) then
            return (if zca then "FAIL zca-nonfinite: non-finite model for a covariance of rank " ++ toString rk ++ " < " ++ toString d
                    else "FAIL whitening-nonfinite")
          if ¬ zca then
            if r = rk then v := { v with exact := v.exact + 1 } else v := v.fail s!"whitening rank: model {rk} impl {r}"
          else if r ≠ d then v := v.fail "zca output dimension"
          let W := (tab2 r d fun i j => gW[i * d + j]!.get).at2
          -- W·Cov (r x d), tabulated
          let WC := (tab2 r d fun i j => rsum d fun k => W i k * cov k j).at2
          let wmax := gW.foldl (fun m x => max m (rabs x.get)) 0
          if ¬ zca ∨ rk = d then
            -- specification of the decomposition: W·Cov·Wᵀ = t·I  (⇒ whitening_output)
            for i in [0:r] do
              for k in [0:r] do
                let lhs := rsum d fun j => WC i j * W k j
                v := v.spec s!"W*Cov*W^T[{i},{k}]" lhs (if i = k then target else 0) (target * 100)
          else v := v.tag "zca-singular-projector-oracle-only"
          for i in [0:r] do
            let mb := -(rsum d fun j => W i j * mean bs j)
            v := v.spec s!"offset[{i}] = -W*mean" (gb[i]!.get) mb (wmax * (rsum d fun j => rabs (mean bs j)))
          return v.line
  | _ => "bad-op"

/-- `pca whitening alg m | table` -/
def opPca (sh : Int) (a : List Int) (o : Option Obs) : String :=
  match a with
  | wh :: alg :: m :: rest =>
    match parseTable rest 0 sh with
    | none => "bad-op"
    | some t =>
      let bs := t.inputs
      let n := t.d
      let l := t.n
      let m := m.toNat
      let mEff := if m = 0 then min n l else m
      let small := alg = 2 ∨ (alg = 0 ∧ n > l)
      let covt := tab2 n n (covariance bs)
      let cov := covt.at2
      match o with
      | none => s!"model rank {rank n cov}"
      | some o =>
        if l < 2 then (if o.status = "exc" then "ok exact=0 tol=0 rel=0 tags=exception" else "FAIL expected exception, got " ++ o.status) else
        if o.status ≠ "ok" then "FAIL status " ++ o.status else
        let gc := o.group "cols"
        let cols := if gc.size = 1 then gc[0]!.get.num.toNat else 0
        let gm := o.group "mean"; let ge := o.group "eigenvalues"; let gV := o.group "eigenvectors"
        let gEW := o.group "encW"; let gEb := o.group "encb"; let gDW := o.group "decW"; let gDb := o.group "decb"
        if gm.size ≠ n ∨ ge.size ≠ cols ∨ gV.size ≠ n * cols ∨ gEW.size ≠ mEff * n ∨ gEb.size ≠ mEff
            ∨ gDW.size ≠ n * mEff ∨ gDb.size ≠ n ∨ mEff > cols then "FAIL shape" else Id.run do
          let mut v : Verdict := {}
          if t.sizes.length > 1 then v := v.tag "multi-batch"
          v := v.tag (if small then "small-sample-branch" else "standard-branch")
          if wh = 1 then v := v.tag "whitening"
          for j in [0:n] do
            v := v.value o.inexact s!"mean[{j}]" (mean bs j) gm[j]!
            v := v.value o.inexact s!"decb[{j}]" (mean bs j) gDb[j]!
          let V := (tab2 n cols fun j i => gV[j * cols + i]!.get).at2
          let ev := fun i => ge[i]!.get
          let top := rabs (ev 0)
          let bad := (List.range mEff).any fun i => (¬ ge[i]!.isFin) ∨ (List.range n).any fun j => ¬ gV[j * cols + i]!.isFin
          if bad then return "FAIL pca-nonfinite-direction among the first " ++ toString mEff ++ " components"
          let zeroDir := fun i => (List.range n).all fun j => V j i = 0
          for i in [0:mEff] do
            if i + 1 < mEff ∧ ev i < ev (i + 1) - tolRel * (1 + top) then v := v.fail s!"eigenvalues not sorted at {i}"
            if zeroDir i then
              v := v.tag "zero-direction"
              if rabs (ev i) > tolRel * (1 + top) then v := v.fail s!"zero direction {i} with eigenvalue {showRat (ev i)}"
            else
              -- eigen-solver specification, checked against the model's covariance (both branches): Cov·v = λ·v
              for j in [0:n] do
                let lhs := rsum n fun k => cov j k * V k i
                v := v.spec s!"Cov*v[{i}][{j}]" lhs (ev i * V j i) (rsum n fun k => rabs (cov j k))
              for k in [0:mEff] do
                if ¬ zeroDir k then
                  v := v.spec s!"orthonormal[{i},{k}]" (rsum n fun j => V j i * V j k) (if i = k then 1 else 0) 1
          -- encoder / decoder built from the directions
          for i in [0:mEff] do
            let enc := fun j => gEW[i * n + j]!
            let dec := fun j => gDW[j * mEff + i]!
            if wh = 0 then
              for j in [0:n] do
                v := v.value false s!"encW[{i},{j}]" (V j i) (enc j)
                v := v.value false s!"decW[{j},{i}]" (V j i) (dec j)
              v := v.spec s!"encb[{i}]" gEb[i]!.get (-(rsum n fun j => V j i * mean bs j)) (rsum n fun j => rabs (mean bs j))
            else
              -- the model `pcaEncoderWhitened`, evaluated with the square root the C++ took (read off the decoder)
              let cleared : Bool := ev i ≤ (1 / 1000000000000000) * ev 0
              if cleared then
                v := v.tag "whitening-cleared"
                for j in [0:n] do
                  v := v.value false s!"cleared encW[{i},{j}]" 0 (enc j)
                  v := v.value false s!"cleared decW[{j},{i}]" 0 (dec j)
              else
                match (List.range n).find? (fun j => V j i ≠ 0 ∧ (dec j).isFin) with
                | some j0 =>
                  let r := (dec j0).get / V j0 i
                  v := v.spec s!"sqrt-spec r*r = ev[{i}]" (r * r) (ev i) (1 + top)
                  let mdl := pcaEncoderWhitened V (mean bs) ev (fun _ => r) n mEff
                  for j in [0:n] do
                    v := v.value true s!"whitened encW[{i},{j}]" (mdl.W i j) (enc j)
                  v := v.spec s!"whitened encb[{i}]" gEb[i]!.get (mdl.b i) ((rsum n fun j => rabs (mean bs j)) * (1 + rabs (1 / r)))
                | none => v := v.tag "whitening-zero-direction"
              for j in [0:n] do
                if ¬ (enc j).isFin ∨ ¬ (dec j).isFin then v := v.fail s!"non-finite whitened encoder/decoder entry ({i},{j})" else
                if (enc j).get = 0 ∧ (dec j).get = 0 then v := v.tag "whitening-cleared-or-zero" else
                  -- enc = V/sqrt(λ), dec = V·sqrt(λ)  ⇒  enc·dec = V², dec² = λ·V²
                  v := v.spec s!"enc*dec[{i},{j}]" ((enc j).get * (dec j).get) (V j i * V j i) 1
                  v := v.spec s!"dec^2[{i},{j}]" ((dec j).get * (dec j).get) (ev i * (V j i * V j i)) (1 + top)
          return v.line
  | _ => "bad-op"

/-- `lda regNum regShift | table+class` and `wlda regNum regShift | table+class+weight` -/
def opLda (weighted : Bool) (sh : Int) (a : List Int) (o : Option Obs) : String :=
  match a with
  | regNum :: regShift :: rest =>
    match parseTable rest (if weighted then 2 else 1) sh with
    | none => "bad-op"
    | some t =>
      let d := t.d
      let reg : Rat := regNum * pow2 (-regShift)
      let rowsW : List (Vec × Nat × Rat) := t.rows.map fun r =>
        ((r.take d).map fun (v : Int) => (v : Rat) * t.scale, (r.getD d 0).toNat, if weighted then ((r.getD (d + 1) 1 : Int) : Rat) else 1)
      let wbs : WCData := cut t.sizes rowsW
      let cbs : CData := cut t.sizes (rowsW.map fun p => (p.1, p.2.1))
      let classes := (rowsW.foldl (fun m p => max m p.2.1) 0) + 1
      -- a class without examples, or (weighted overload) whose examples all have weight 0
      let emptyClass := (List.range classes).any fun c => (rowsW.all fun p => p.2.1 ≠ c) ∨ (weighted ∧ classWeight wbs c = 0)
      let expectExc := emptyClass ∨ (¬ weighted ∧ t.n ≤ classes)
      let mu := (tab2 classes d fun c j => if weighted then wldaMean wbs c j else ldaMean cbs c j).at2
      let cov := (tab2 d d fun i j => if weighted then wldaCov wbs classes reg i j else ldaCov cbs classes reg i j).at2
      let prior := fun c => if weighted then wldaPrior wbs c else ldaPrior cbs c
      match o with
      | none => s!"model classes {classes} rank {rank d cov}"
      | some o =>
        if expectExc then
          (if o.status = "exc" then "ok exact=0 tol=0 rel=0 tags=exception"
           else if ¬ emptyClass then "FAIL lda-n-equals-classes: one example per class, the pooled covariance is 0/0; expected an exception, got " ++ o.status
           else "FAIL expected exception, got " ++ o.status) else
        if o.status ≠ "ok" then "FAIL status " ++ o.status else
        let gZ := o.group "Z"; let gb := o.group "bias"
        if gZ.size ≠ classes * d ∨ gb.size ≠ classes then "FAIL shape" else Id.run do
          let mut v : Verdict := {}
          if t.sizes.length > 1 then v := v.tag "multi-batch"
          let rk := rank d cov
          v := v.tag (if rk = d then "regular-cov" else "singular-cov")
          if classes = 1 then v := v.tag "single-class"
          if rowsW.any (fun p => p.2.2 = 0) then v := v.tag "zero-weight"
          if gZ.any (fun x => ¬ x.isFin) ∨ gb.any (fun x => ¬ x.isFin) then return "FAIL lda-nonfinite model"
          if rk = d then
            let Z := (tab2 classes d fun c j => gZ[c * d + j]!.get).at2
            for c in [0:classes] do
              -- specification of solve(cov, means, right):  z_c · Cov = m_c
              for j in [0:d] do
                let lhs := rsum d fun k => Z c k * cov k j
                v := v.spec s!"z*Cov[{c},{j}]" lhs (mu c j) ((rsum d fun k => rabs (Z c k * cov k j)) + rabs (mu c j))
              -- bias = -1/2 m_c·z_c + log prior  (log from libm, compared in Float)
              let mz := rsum d fun j => mu c j * Z c j
              let lhs := ratToFloat (gb[c]!.get + mz / 2)
              let lp := Float.log (ratToFloat (prior c))
              if (lhs - lp).abs ≤ 1e-8 * (1 + lp.abs + (ratToFloat (rabs mz))) then v := { v with rel := v.rel + 1 }
              else v := v.fail s!"bias[{c}]: bias + m.z/2 = {lhs}, log prior = {lp}"
          return v.line
  | _ => "bad-op"

/-- `fisher whitening dims | table+class`: global mean and offset of FisherLDA -/
def opFisher (sh : Int) (a : List Int) (o : Option Obs) : String :=
  match a with
  | _wh :: dims :: rest =>
    match parseTable rest 1 sh with
    | none => "bad-op"
    | some t =>
      let d := t.d
      let rows : List (Vec × Nat) := t.rows.map fun r => ((r.take d).map fun (v : Int) => (v : Rat) * t.scale, (r.getD d 0).toNat)
      let cbs : CData := cut t.sizes rows
      let classes := (rows.foldl (fun m p => max m p.2) 0) + 1
      -- default subspace dimension = number of classes, capped by the input dimension (repaired trainer, F-C15-8)
      let nComp := min (if dims = 0 then classes else dims.toNat) d
      match o with
      | none => "model mean " ++ " ".intercalate ((List.range d).map fun j => showRat (fisherMean cbs classes j))
      | some o =>
        let mut_sw := (tab2 d d (withinScatter cbs)).at2
        let swRegular := rank d mut_sw = d
        if o.status = "exc" then
          (if swRegular then "FAIL unexpected exception (within-class scatter is regular)" else "ok exact=0 tol=0 rel=0 tags=exception,singular-within-scatter") else
        if o.status ≠ "ok" then "FAIL status " ++ o.status else
        if ¬ swRegular then "ok exact=0 tol=0 rel=0 tags=singular-within-scatter-unchecked" else
        let gm := o.group "gmean"; let gW := o.group "W"; let gb := o.group "b"
        if gm.size ≠ d ∨ gW.size ≠ nComp * d ∨ gb.size ≠ nComp then "FAIL shape" else Id.run do
          let mut v : Verdict := {}
          if t.sizes.length > 1 then v := v.tag "multi-batch"
          for j in [0:d] do
            match gm[j]! with
            | .fin g =>
              let m := fisherMean cbs classes j
              if g = m then v := { v with exact := v.exact + 1 }
              else if rabs (g - m) ≤ tolFun * (1 + rabs m) then v := { v with tol := v.tol + 1 }
              else if rabs (g - fisherMeanPinned cbs classes j) ≤ tolFun * (1 + rabs m) then
                v := v.fail s!"fisherlda-mean: global mean[{j}] = {showRat g} is the pinned mean/n (divided by the number of inputs twice); model {showRat m}"
              else v := v.fail s!"gmean[{j}]: model {showRat m} impl {showRat g}"
            | g => v := v.fail s!"gmean[{j}] impl {showV g}"
          if gW.all (·.isFin) ∧ gb.all (·.isFin) ∧ gm.all (·.isFin) then
            for i in [0:nComp] do
              let lhs := -(rsum d fun j => gW[i * d + j]!.get * gm[j]!.get)
              v := v.spec s!"offset[{i}] = -W*mean" gb[i]!.get lhs (rsum d fun j => rabs (gW[i * d + j]!.get * gm[j]!.get))
          else v := v.fail "fisher-nonfinite model"
          -- the matrix `meanAndScatter` hands to the eigen-solver: `solve(Sw, Sb, symm_pos_def(), left)`, i.e. Sw·M = Sb with the
          -- model's `withinScatterMoments` / `betweenScatter` (theorem fisher_scatter_spec through C02's Cholesky solve)
          let gS := o.group "scatter"
          if gS.size = d * d ∧ gS.all (·.isFin) then
            let Sw := (tab2 d d (withinScatterMoments cbs classes)).at2
            let Sb := (tab2 d d (betweenScatter cbs classes)).at2
            let M := (tab2 d d fun i j => gS[i * d + j]!.get).at2
            let mmax := gS.foldl (fun m x => max m (rabs x.get)) 0
            let okSolve := (List.range d).all fun i => (List.range d).all fun j =>
              let scale := (rsum d fun l => rabs (Sw i l * M l j)) + rabs (Sb i j)
              rabs ((rsum d fun l => Sw i l * M l j) - Sb i j) ≤ (1 / 10000000) * (1 + scale)
            let symm := (List.range d).all fun i => (List.range d).all fun j => rabs (M i j - M j i) ≤ tolRel * (1 + mmax)
            if okSolve then v := { v with rel := v.rel + d * d }
            else if symm then v := v.tag "symmetrised-scatter"        -- the repaired trainer (F-C15-7) decomposes L^-1 Sb L^-T
            else v := v.fail "fisher-scatter: Sw * scatter = Sb violated by the matrix handed to the eigen-solver"
            if okSolve ∧ ¬ symm then v := v.tag "scatter-not-symmetric"
          else v := v.fail "fisher-scatter missing or non-finite"
          return v.line
  | _ => "bad-op"

/-! ### kernel trainers (harness/c15d.cpp) -/

def kernelOf (kern : Int) (d : Nat) : Kernel := if kern = 0 then linearKernel d else polyKernel d

def excOr (o : Obs) (what : String) : String :=
  if o.status = "exc" then "ok exact=0 tol=0 rel=0 tags=exception" else s!"FAIL {what}; expected an exception, got {o.status}"

/-- `regnet kern bNum bShift k | table+labels` -/
def opRegNet (sh : Int) (a : List Int) (o : Option Obs) : String :=
  match a with
  | kern :: bNum :: bShift :: k :: rest =>
    if kern < 0 ∨ kern > 1 ∨ bNum ≤ 0 ∨ bShift < 0 ∨ k ≤ 0 then "bad-op" else
    let k := k.toNat
    match parseTable rest k sh with
    | none => "bad-op"
    | some t =>
      let bs := t.labeled
      let n := t.n
      let noise : Rat := bNum * pow2 (-bShift)
      let ker := kernelOf kern t.d
      let Mt := tab2 n n (regnetM ker bs noise)
      let M := Mt.at2
      let Rt := tab2 n k (regnetRhs bs)
      let R := Rt.at2
      match o with
      | none => "model offset " ++ " ".intercalate ((List.range k).map fun c => showRat (regnetMean bs c))
      | some o =>
        if o.status ≠ "ok" then "FAIL status " ++ o.status else
        let gA := o.group "alpha"; let gb := o.group "b"; let gs := o.group "semi"
        if gA.size ≠ n * k ∨ gb.size ≠ k ∨ gs.size ≠ 1 then "FAIL shape" else Id.run do
          let mut v : Verdict := {}
          if t.sizes.length > 1 then v := v.tag "multi-batch"
          if ¬ o.inexact then v := v.tag "exact-run"
          if gA.any (fun x => ¬ x.isFin) ∨ gb.any (fun x => ¬ x.isFin) then return "FAIL regnet-nonfinite model"
          -- which solver: `noiseVariance()/max(diag(M)) < 1e-5` (semi-definite) or Cholesky
          let maxDiag := (List.range n).foldl (fun m i => max m (M i i)) 0
          let semi : Bool := noise / maxDiag < 1 / 100000
          v := v.tag (if semi then "semi-definite-solver" else "cholesky-solver")
          v := v.value false "solver branch" (if semi then 1 else 0) gs[0]!
          for c in [0:k] do
            v := v.value o.inexact s!"offset[{c}] = label mean" (regnetMean bs c) gb[c]!
          let got := (tab2 n k fun i c => gA[i * k + c]!.get).at2
          -- specification of the solve on the returned coefficients: (K + σ²I)·alpha = L − mean
          for i in [0:n] do
            for c in [0:k] do
              let scale := (rsum n fun j => rabs (M i j * got j c)) + rabs (R i c)
              v := v.spec s!"(K+noise*I)*alpha[{i},{c}]" (matMul n M got i c) (R i c) scale
          -- M is positive definite, the solution unique: compare with the model's own solve
          let betat := tab2 n k (gaussSolve n k M R)
          let beta := betat.at2
          let mx := (List.range n).foldl (fun m j => (List.range k).foldl (fun m c => max m (rabs (beta j c))) m) 0
          for i in [0:n] do
            for c in [0:k] do
              if matMul n M beta i c ≠ R i c then v := v.fail s!"gaussSolve violates M*alpha = rhs at ({i},{c})"
              -- forward comparison only in the Cholesky branch: the other branch is taken exactly when the system is
              -- ill-conditioned (noise/max diag < 1e-5), there the residual and the gradient above are what is checked
              if semi then v := v.tag "ill-conditioned-forward-comparison-skipped"
              else if rabs (got i c - beta i c) ≤ (1 / 1000000) * (1 + mx) then v := { v with tol := v.tol + 1 }
              else v := v.fail s!"alpha[{i},{c}]: model {showRat (beta i c)} impl {showRat (got i c)}"
          -- the gradient of the regularised risk at the returned coefficients (model `regnetGradient`)
          for c in [0:k] do
            let al := fun j => got j c
            for i in [0:n] do
              let g := regnetGradient ker bs noise c al gb[c]!.get i
              let scale := rsum n fun j => rabs (M i j) * ((rsum n fun l => rabs (M j l * got l c)) + rabs (R j c))
              v := v.spec s!"gradient[{i},{c}]" g 0 scale
          return v.line
  | _ => "bad-op"

/-- `kmean kern weighted | table+class[+weight]` -/
def opKMean (sh : Int) (a : List Int) (o : Option Obs) : String :=
  match a with
  | kern :: weighted :: rest =>
    if kern < 0 ∨ kern > 1 ∨ weighted < 0 ∨ weighted > 1 then "bad-op" else
    match parseTable rest (if weighted = 1 then 2 else 1) sh with
    | none => "bad-op"
    | some t =>
      let d := t.d
      let n := t.n
      let rowsW : List (Vec × Nat × Rat) := t.rows.map fun r =>
        ((r.take d).map fun (v : Int) => (v : Rat) * t.scale, (r.getD d 0).toNat, if weighted = 1 then ((r.getD (d + 1) 1 : Int) : Rat) else 1)
      let wbs : WCData := cut t.sizes rowsW
      let classes := (rowsW.foldl (fun m p => max m p.2.1) 0) + 1
      let ker := kernelOf kern d
      let emptyClass := (List.range classes).any fun c => classWeight wbs c = 0
      match o with
      | none => s!"model classes {classes} offsets " ++ " ".intercalate ((List.range classes).map fun c => showRat (kmOffset ker wbs c))
      | some o =>
        if emptyClass then excOr o "a class has total weight 0" else
        if o.status ≠ "ok" then "FAIL status " ++ o.status else
        let gA := o.group "alpha"; let gb := o.group "b"
        let cols := if classes = 2 then 1 else classes
        if gA.size ≠ n * cols ∨ gb.size ≠ cols then "FAIL shape" else Id.run do
          let mut v : Verdict := {}
          if t.sizes.length > 1 then v := v.tag "multi-batch"
          if ¬ o.inexact then v := v.tag "exact-run"
          v := v.tag (if classes = 2 then "binary" else if classes = 1 then "single-class" else "multi-class")
          if rowsW.any (fun p => p.2.2 = 0) then v := v.tag "zero-weight"
          let offs := (List.range classes).toArray.map fun c => kmOffset ker wbs c
          let rowsA := rowsW.toArray
          if classes = 2 then
            for i in [0:n] do
              v := v.value o.inexact s!"alpha[{i}]" (kmCoef wbs 1 rowsA[i]! - kmCoef wbs 0 rowsA[i]!) gA[i]!
            v := v.value o.inexact "offset" ((offs[0]! - offs[1]!) / 2) gb[0]!
          else
            for i in [0:n] do
              for c in [0:classes] do
                v := v.value o.inexact s!"alpha[{i},{c}]" (kmCoef wbs c rowsA[i]!) gA[i * classes + c]!
            for c in [0:classes] do
              v := v.value o.inexact s!"offset[{c}]" (-(offs[c]!) / 2) gb[c]!
          return v.line
  | _ => "bad-op"

/-- `nkuv kern | table` -/
def opNkuv (sh : Int) (a : List Int) (o : Option Obs) : String :=
  match a with
  | kern :: rest =>
    if kern < 0 ∨ kern > 1 then "bad-op" else
    match parseTable rest 0 sh with
    | none => "bad-op"
    | some t =>
      let bs := t.inputs
      let ker := kernelOf kern t.d
      let tm := nkuvVariance ker bs
      match o with
      | none => s!"model trace {showRat (nkuvTrace ker bs)} sum {showRat (nkuvMean ker bs)} variance {showRat tm}"
      | some o =>
        if t.n < 2 then excOr o "fewer than two points" else
        if tm ≤ 0 then
          (if o.status = "exc" then "ok exact=0 tol=0 rel=0 tags=exception,zero-feature-variance"
           else s!"FAIL nkuv-zero-variance: the data have variance {showRat tm} in feature space (all points coincide there), the factor 1/variance does not exist; expected an exception, got {o.status}")
        else
        if o.status ≠ "ok" then "FAIL status " ++ o.status else
        let gf := o.group "factor"; let gt := o.group "trace"; let gm := o.group "mean"
        if gf.size ≠ 1 ∨ gt.size ≠ 1 ∨ gm.size ≠ 1 then "FAIL shape" else Id.run do
          let mut v : Verdict := {}
          if t.sizes.length > 1 then v := v.tag "multi-batch"
          if ¬ o.inexact then v := v.tag "exact-run"
          v := v.value o.inexact "trace" (nkuvTrace ker bs) gt[0]!
          v := v.value o.inexact "sum of kernel matrix" (nkuvMean ker bs) gm[0]!
          v := v.value o.inexact "factor" (nkuvFactor ker bs) gf[0]!
          return v.line
  | _ => "bad-op"

def dispatch (op : String) (sh : Int) (a : List Int) (o : Option Obs) : String :=
  match op with
  | "meanvar" => opMeanVar sh a o
  | "unitvar" => opUnitVar sh a o
  | "unitint" => opUnitInt sh a o
  | "linreg" => opLinReg sh a o
  | "whiten" => opWhiten false sh a o
  | "zca" => opWhiten true sh a o
  | "pca" => opPca sh a o
  | "pcat" => opPca sh a o        -- same result through `PCA::train`
  | "pcac" => opPca sh a o        -- same result through the constructor `PCA(data, whitening)`
  | "lda" => opLda false sh a o
  | "wlda" => opLda true sh a o
  | "fisher" => opFisher sh a o
  | "regnet" => opRegNet sh a o
  | "kmean" => opKMean sh a o
  | "nkuv" => opNkuv sh a o
  | _ => "bad-op"

def toks (s : String) : List String := (s.trimAscii.toString.splitOn " ").filter (· ≠ "")

/-- one op with the observation of the real trainer (or none: print the model's values) -/
def stepOne (op : String) (obs : Option String) : String :=
  match toks op with
  | [] => ""
  | name :: args =>
    -- `op@s`: the data values of the table are scaled by `2^-s`
    let (base, sh) : String × Option Int := match name.splitOn "@" with
      | [b] => (b, some 0)
      | [b, s] => (b, s.toInt?)
      | _ => (name, none)
    match sh, args.mapM String.toInt? with
    | some sh, some a => dispatch base sh a (obs.map fun o => parseObs (toks o))
    | _, _ => "bad-op"

/-- A line is one op or a HISTORY `op ; op ; …` whose steps the harness executed one after the other on the same
trainer and model objects (observations separated by `;;`).  The trainers are specified as functions of the data
and the configuration of the call alone (`Props/C15.lean`, section "Objects used more than once"), so every step
is judged against the model of that step alone: a step whose result depends on the earlier steps FAILs. -/
def step (line : String) : String :=
  let parts := line.splitOn "||"
  let ops := ((parts.headD "").splitOn ";").filter fun s => ¬ (toks s).isEmpty
  match parts with
  | [_, o] =>
    let obs := o.splitOn ";;"
    if ops.length ≠ obs.length then s!"FAIL history of {ops.length} steps with {obs.length} observations"
    else " ;; ".intercalate ((ops.zip obs).map fun (op, ob) => stepOne op (some ob))
  | _ => " ;; ".intercalate (ops.map fun op => stepOne op none)

partial def loop (h : IO.FS.Stream) (out : IO.FS.Stream) : IO Unit := do
  let line ← h.getLine
  if line.isEmpty then return
  out.putStrLn (step line)
  out.flush
  loop h out

def main : IO Unit := do
  loop (← IO.getStdin) (← IO.getStdout)
