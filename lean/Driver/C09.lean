/-
Line-protocol driver for the C09 models (LRUCache / CachedMatrix).
One op per input line, one observation line per op; same protocol as
harness/c09.cpp.  Imports core-Lean model files only (native executable).
-/
import SharkVerif.Model.Cache
import SharkVerif.Model.KernelMatrices
open SharkVerif.Cache

def baseEntry (a b : Nat) : Int := (a * 1000 + b + 1 : Nat)

def showList (l : List Int) : String :=
  "[" ++ ",".intercalate (l.map toString) ++ "]"

def showState (n : Nat) (c : LRU Int) : String :=
  let lines := (List.range n).map fun i => showList (c.lines i)
  s!"size={c.size} cached={c.cachedLines} lru={c.lru} " ++ " ".intercalate lines

/-! wrapper matrices over integer points with the linear kernel -/
open SharkVerif.KM in
inductive W where
  | kernel (m : Kernel Int) | reg (m : Regularized Int) | mod (m : Modified Int)
  | pre (m : Precomputed Int) | block (m : Block2 Int) | diff (m : Difference Int)
  | partly (m : Partly Int)

namespace W
def entry : W → Nat → Nat → Int
  | kernel m, i, j => m.entry i j | reg m, i, j => m.entry i j | mod m, i, j => m.entry i j
  | pre m, i, j => m.entry i j | block m, i, j => m.entry i j | diff m, i, j => m.entry i j
  | partly m, i, j => m.entry i j
def row : W → Nat → Nat → Nat → List Int
  | kernel m, k, s, e => m.row k s e | reg m, k, s, e => m.row k s e | mod m, k, s, e => m.row k s e
  | pre m, k, s, e => m.row k s e | block m, k, s, e => m.row k s e | diff m, k, s, e => m.row k s e
  | partly m, k, s, e => (List.range (e - s)).map fun d => m.entry k (s + d)
def flip : W → Nat → Nat → W
  | kernel m, i, j => kernel (m.flip i j) | reg m, i, j => reg (m.flip i j) | mod m, i, j => mod (m.flip i j)
  | pre m, i, j => pre (m.flip i j) | block m, i, j => block (m.flip i j) | diff m, i, j => diff (m.flip i j)
  | partly m, _, _ => partly m
end W

structure WSt where
  n : Nat := 0
  d : Nat := 0
  pts : Array Int := #[]
  labels : Array Nat := #[]
  diag : Array Nat := #[]
  w : Option W := none
  size : Nat := 0

/-- linear kernel on the integer points (coordinates were sent with offset 8) -/
def WSt.k (s : WSt) (a b : Nat) : Int :=
  (List.range s.d).foldl (fun acc c => acc + s.pts[a * s.d + c]! * s.pts[b * s.d + c]!) 0

structure St where
  n   : Nat := 0
  cm  : CM Int := CM.init 0 baseEntry 0
  ctr : Nat := 0
  ws  : WSt := {}

def freshVal (ctr i c : Nat) : Int := (ctr * 512 + i * 40 + c : Nat)

open SharkVerif.KM in
def wstep (s : WSt) (op : String) (args : List String) : WSt × String :=
  match op, args with
  | "wdata", _ =>
    match args.mapM String.toNat? with
    | some (n :: d :: _bs :: rest) =>
      if rest.length != n * d + 2 * n then (s, "bad-op") else
      let xs : List Int := (rest.take (n * d)).map fun (v : Nat) => (v : Int) - 8
      let labs := (rest.drop (n * d)).take n
      let dg := rest.drop (n * d + n)
      ({ n := n, d := d, pts := xs.toArray, labels := labs.toArray, diag := dg.toArray, w := none, size := 0 }, "ok")
    | _ => (s, "bad-op")
  | "wgauss", _ => (s, "R=ok")     -- oracle-only op (GaussianKernelMatrix is not modelled)
  | "wmk", ty :: rest =>
    match rest.mapM String.toNat? with
    | none => (s, "bad-op")
    | some a =>
      let k := s.k
      let mk (w : W) (size : Nat) : WSt × String := ({ s with w := some w, size := size }, s!"size={size}")
      match ty, a with
      | "kernel", _ => mk (.kernel (Kernel.init k)) s.n
      | "reg", _ => mk (.reg (Regularized.init k fun i => (s.diag[i]! : Int))) s.n
      | "mod", [e, n] => mk (.mod (Modified.init k (fun i => s.labels[i]!) (e : Int) (n : Int))) s.n
      | "pre", fl =>
        if fl.length % 2 != 0 then (s, "bad-op") else
        -- flips applied to the base before precomputation
        let rec pairs : List Nat → List (Nat × Nat)
          | i :: j :: r => (i, j) :: pairs r
          | _ => []
        let base := (pairs fl).foldl (fun b p => b.flip p.1 p.2) (Kernel.init k)
        mk (.pre (Precomputed.init base.entry)) s.n
      | "block", _ => mk (.block (Block2.init (Kernel.init k).entry s.n)) (2 * s.n)
      | "diff", ps =>
        if ps.length % 2 != 0 || ps.isEmpty then (s, "bad-op") else
        let arr := ps.toArray
        mk (.diff (Difference.init k fun i => (arr[2 * i]!, arr[2 * i + 1]!))) (ps.length / 2)
      | "partly", [bytes] => mk (.partly (Partly.init (Kernel.init k).entry s.n bytes 0)) s.n
      | _, _ => (s, "bad-op")
  | _, _ =>
    match s.w, args.mapM String.toNat? with
    | some w, some a =>
      match op, a with
      | "wflip", [i, j] => ({ s with w := some (w.flip i j) }, "ok")
      | "wentry", [i, j] => (s, s!"R={w.entry i j}")
      | "wrow", [k, st, e] => (s, s!"R={showList (w.row k st e)}")
      | "wmatrix", [] =>
        let all := (List.range s.size).flatMap fun i => (List.range s.size).map fun j => w.entry i j
        (s, s!"R={showList all}")
      | _, _ => (s, "bad-op")
    | _, _ => (s, "bad-op")

def step (s : St) (line : String) : St × String :=
  let s := { s with ctr := s.ctr + 1 }
  let toks := (line.trimAscii.toString.splitOn " ").filter (· ≠ "")
  match toks with
  | [] => (s, "")
  | op :: args =>
    if op.startsWith "w" then
      let (ws, o) := wstep s.ws op args
      ({ s with ws := ws }, o)
    else
    match args.mapM String.toNat? with
    | none => (s, "bad-op")
    | some a =>
      let st (cm : CM Int) (r : String) : St × String :=
        ({ s with cm := cm }, r ++ showState s.n cm.cache)
      match op, a with
      | "new", [n, cap] =>
        let cm := CM.init n baseEntry cap
        ({ s with n := n, cm := cm, ctr := 0 }, showState n cm.cache)
      | "row", [k, stop] =>
        let cm := s.cm.row k 0 stop
        st cm (s!"R={showList (cm.cache.lines k)} ")
      | "rows", [k, start, stop] =>
        st s.cm (s!"R={showList (s.cm.rowStorage k start stop)} ")
      | "entry", [i, j] => st s.cm (s!"R={s.cm.entry i j} ")
      | "flip", [i, j] => st (s.cm.flip i j) ""
      | "maxidx", [m] => st (s.cm.setMaxCachedIndex m) ""
      | "clear", [] => st s.cm.clear ""
      -- raw LRU operations on the cache of the current matrix
      | "get", [i, size] =>
        st { s.cm with cache := s.cm.cache.getCacheLine i size (freshVal s.ctr i) } ""
      | "resize", [i, size] =>
        st { s.cm with cache := s.cm.cache.resizeLine i size (freshVal s.ctr i) } ""
      | "mark", [i] => st { s.cm with cache := s.cm.cache.markForDeletion i } ""
      | "swap", [i, j] => st { s.cm with cache := s.cm.cache.swapLineIndices i j } ""
      | _, _ => (s, "bad-op")

partial def loop (h : IO.FS.Stream) (out : IO.FS.Stream) (s : St) : IO Unit := do
  let line ← h.getLine
  if line.isEmpty then return ()
  let (s', o) := step s line
  out.putStrLn o
  loop h out s'

def main : IO Unit := do
  loop (← IO.getStdin) (← IO.getStdout) {}
