/-
Line-protocol driver for the C09 models (LRUCache / CachedMatrix).
One op per input line, one observation line per op; same protocol as
harness/c09.cpp.  Imports core-Lean model files only (native executable).
-/
import SharkVerif.Model.Cache
open SharkVerif.Cache

def baseEntry (a b : Nat) : Int := (a * 1000 + b + 1 : Nat)

def showList (l : List Int) : String :=
  "[" ++ ",".intercalate (l.map toString) ++ "]"

def showState (n : Nat) (c : LRU Int) : String :=
  let lines := (List.range n).map fun i => showList (c.lines i)
  s!"size={c.size} cached={c.cachedLines} lru={c.lru} " ++ " ".intercalate lines

structure St where
  n   : Nat := 0
  cm  : CM Int := CM.init 0 baseEntry 0
  ctr : Nat := 0

def freshVal (ctr i c : Nat) : Int := (ctr * 512 + i * 40 + c : Nat)

def step (s : St) (line : String) : St × String :=
  let s := { s with ctr := s.ctr + 1 }
  let toks := (line.trimAscii.toString.splitOn " ").filter (· ≠ "")
  match toks with
  | [] => (s, "")
  | op :: args =>
    match args.mapM String.toNat? with
    | none => (s, "bad-op")
    | some a =>
      let st (cm : CM Int) (r : String) : St × String :=
        ({ s with cm := cm }, r ++ showState s.n cm.cache)
      match op, a with
      | "new", [n, cap] =>
        let cm := CM.init n baseEntry cap
        ({ s with n := n, cm := cm, ctr := 0 }, showState n cm.cache)
      | "row", [k, stop] =>
        let cm := s.cm.row k 0 stop
        st cm (s!"R={showList (cm.cache.lines k)} ")
      | "rows", [k, start, stop] =>
        st s.cm (s!"R={showList (s.cm.rowStorage k start stop)} ")
      | "entry", [i, j] => st s.cm (s!"R={s.cm.entry i j} ")
      | "flip", [i, j] => st (s.cm.flip i j) ""
      | "maxidx", [m] => st (s.cm.setMaxCachedIndex m) ""
      | "clear", [] => st s.cm.clear ""
      -- raw LRU operations on the cache of the current matrix
      | "get", [i, size] =>
        st { s.cm with cache := s.cm.cache.getCacheLine i size (freshVal s.ctr i) } ""
      | "resize", [i, size] =>
        st { s.cm with cache := s.cm.cache.resizeLine i size (freshVal s.ctr i) } ""
      | "mark", [i] => st { s.cm with cache := s.cm.cache.markForDeletion i } ""
      | "swap", [i, j] => st { s.cm with cache := s.cm.cache.swapLineIndices i j } ""
      | _, _ => (s, "bad-op")

partial def loop (h : IO.FS.Stream) (out : IO.FS.Stream) (s : St) : IO Unit := do
  let line ← h.getLine
  if line.isEmpty then return ()
  let (s', o) := step s line
  out.putStrLn o
  loop h out s'

def main : IO Unit := do
  loop (← IO.getStdin) (← IO.getStdout) {}
