/-
Line-protocol driver for the C09 models (LRUCache / CachedMatrix / wrapper matrices).
One op per input line, one observation line per op; same protocol as
harness/c09.cpp and harness/c09b.cpp.  Imports core-Lean model files only.

The model that is run is the statement-level one (`CMG` over `LRUP`): fresh buffers hold junk until
`base->row` overwrites them, every buffer access is bounds-checked (`FAULT` = an access outside a
buffer), `swapLineIndices` performs the intrusive-list surgery of the C++ case by case, and every
line carries the identity of its buffer.
-/
import SharkVerif.Model.Cache
import SharkVerif.Model.KernelMatrices
open SharkVerif.Cache

def baseEntry (a b : Nat) : Int := (a * 1000 + b + 1 : Nat)

/-- contents of freshly allocated memory: never observable if the model is right -/
def junk (_ : Nat) : Int := -777

def showList (l : List Int) : String :=
  "[" ++ ",".intercalate (l.map toString) ++ "]"

def showState (n : Nat) (p : LRUP Int) : String :=
  let c := p.core
  let lines := (List.range n).map fun i => showList (c.lines i)
  let ids := (List.range n).map fun i => toString (p.bufferOf i)
  s!"size={c.size} cached={c.cachedLines} lru={c.lru} " ++ " ".intercalate lines ++
    " ids=[" ++ ",".intercalate ids ++ "]"

/-! wrapper matrices over integer points with the linear kernel -/
open SharkVerif.KM in
inductive W where
  | kernel (m : Kernel Int) | reg (m : Regularized Int) | mod (m : Modified Int)
  | pre (m : Precomputed Int) | block (m : Block2 Int) | diff (m : Difference Int)
  | partly (m : Partly Int) (n : Nat) | gauss (m : Gaussian Int) | exmod (m : ExMod Int) (swapsScale : Bool)

namespace W
def entry : W → Nat → Nat → Int
  | kernel m, i, j => m.entry i j | reg m, i, j => m.entry i j | mod m, i, j => m.entry i j
  | pre m, i, j => m.entry i j | block m, i, j => m.entry i j | diff m, i, j => m.entry i j
  | partly m _, i, j => m.entry i j | gauss m, i, j => m.entry i j | exmod m _, i, j => m.entry i j
def row : W → Nat → Nat → Nat → List Int
  | kernel m, k, s, e => m.row k s e | reg m, k, s, e => m.row k s e | mod m, k, s, e => m.row k s e
  | pre m, k, s, e => m.row k s e | block m, k, s, e => m.row k s e | diff m, k, s, e => m.row k s e
  | partly m n, k, s, e => ((m.row n k).drop s).take (e - s)      -- whole-row read, then the range
  | gauss m, k, s, e => m.row k s e | exmod m _, k, s, e => m.row k s e
def flip : W → Nat → Nat → W
  | kernel m, i, j => kernel (m.flip i j) | reg m, i, j => reg (m.flip i j) | mod m, i, j => mod (m.flip i j)
  | pre m, i, j => pre (m.flip i j) | block m, i, j => block (m.flip i j) | diff m, i, j => diff (m.flip i j)
  | partly m n, _, _ => partly m n | gauss m, i, j => gauss (m.flip i j)
  | exmod m sw, i, j => exmod (m.flip sw i j) sw
/-- `matrix()` as written; `hf` = does `KernelMatrix::matrix` honour flips (read off the source) -/
def matrix (hf : Bool) (size : Nat) : W → Nat → Nat → Option Int
  | kernel m, i, j => some (m.matrix hf i j) | reg m, i, j => some (m.matrix hf i j)
  | mod m, i, j => some (m.matrix hf i j)
  | block m, i, j => some (m.entry i j) | diff m, i, j => some (m.entry i j)
  | gauss m, i, j => (m.matrix size i)[j]?
  | exmod m _, i, j => some (m.entry i j)
  | _, _, _ => none
end W

def wOps : BaseOps W Int := ⟨W.entry, W.row, W.flip⟩

structure WSt where
  n : Nat := 0
  d : Nat := 0
  pts : Array Int := #[]
  labels : Array Nat := #[]
  diag : Array Nat := #[]
  w : Option W := none
  size : Nat := 0
  /-- source flags: `KernelMatrix::matrix` honours flips; `ExampleModifiedKernelMatrix` flips its scaling -/
  k2fixed : Bool := false
  exfixed : Bool := false
  cm : Option (CMG W Int) := none

/-- linear kernel on the integer points (coordinates were sent with offset 8) -/
def WSt.k (s : WSt) (a b : Nat) : Int :=
  (List.range s.d).foldl (fun acc c => acc + s.pts[a * s.d + c]! * s.pts[b * s.d + c]!) 0

structure St where
  n   : Nat := 0
  cm  : CMG (SharkVerif.KM.Kernel Int) Int := CMG.init 0 (SharkVerif.KM.Kernel.init baseEntry) 0
  ctr : Nat := 0
  ws  : WSt := {}

def synthOps : BaseOps (SharkVerif.KM.Kernel Int) Int :=
  ⟨SharkVerif.KM.Kernel.entry, SharkVerif.KM.Kernel.row, SharkVerif.KM.Kernel.flip⟩

def freshVal (ctr i c : Nat) : Int := (ctr * 512 + i * 40 + c : Nat)

/-- the client operations of a `CachedMatrix` over any base -/
def cmStep {B : Type} (ops : BaseOps B Int) (cm : CMG B Int) (op : String) (a : List Nat) :
    Option (CMG B Int × String) :=
  let st (c : CMG B Int) (r : String) := some (c, r ++ showState c.n c.cache)
  match op, a with
  | "row", [k, stop] =>
    match CMG.row ops junk cm k 0 stop with
    | some c => st c (s!"R={showList (c.cache.core.lines k)} ")
    | none => some (cm, "FAULT")
  | "rows", [k, start, stop] =>
    match CMG.rowStorage ops junk cm k start stop with
    | some l => st cm (s!"R={showList l} ")
    | none => some (cm, "FAULT")
  | "entry", [i, j] => st cm (s!"R={ops.entry cm.w i j} ")
  | "flip", [i, j] =>
    match CMG.flip ops cm i j with
    | some c => st c ""
    | none => some (cm, "FAULT")
  | "maxidx", [m] => st (cm.setMaxCachedIndex m) ""
  | "clear", [] => st cm.clear ""
  | _, _ => none

open SharkVerif.KM in
def wstep (s : WSt) (op : String) (args : List String) : WSt × String :=
  match op, args with
  | "wflags", _ =>
    match args.mapM String.toNat? with
    | some [a, b] => ({ s with k2fixed := a != 0, exfixed := b != 0 }, "ok")
    | _ => (s, "bad-op")
  | "wdata", _ =>
    match args.mapM String.toNat? with
    | some (n :: d :: _bs :: rest) =>
      if rest.length != n * d + 2 * n then (s, "bad-op") else
      let xs : List Int := (rest.take (n * d)).map fun (v : Nat) => (v : Int) - 8
      let labs := (rest.drop (n * d)).take n
      let dg := rest.drop (n * d + n)
      ({ s with n := n, d := d, pts := xs.toArray, labels := labs.toArray, diag := dg.toArray, w := none,
                size := 0, cm := none }, "ok")
    | _ => (s, "bad-op")
  | "wgauss", _ => (s, "R=ok")     -- toleranced oracle-only op (GaussianKernelMatrix vs GaussianRbfKernel)
  | "wmk", ty :: rest =>
    match rest.mapM String.toNat? with
    | none => (s, "bad-op")
    | some a =>
      let k := s.k
      let mk (w : W) (size : Nat) : WSt × String := ({ s with w := some w, size := size, cm := none }, s!"size={size}")
      let rec pairs : List Nat → List (Nat × Nat)
        | i :: j :: r => (i, j) :: pairs r
        | _ => []
      match ty, a with
      | "kernel", _ => mk (.kernel (Kernel.init k)) s.n
      | "reg", _ => mk (.reg (Regularized.init k fun i => (s.diag[i]! : Int))) s.n
      | "mod", [e, n] => mk (.mod (Modified.init k (fun i => s.labels[i]!) (e : Int) (n : Int))) s.n
      | "pre", fl =>
        if fl.length % 2 != 0 then (s, "bad-op") else
        -- flips applied to the base before `PrecomputedMatrix(base)` calls `base->matrix(...)`
        let base := (pairs fl).foldl (fun b p => b.flip p.1 p.2) (Kernel.init k)
        mk (.pre (Precomputed.init (base.matrix s.k2fixed))) s.n
      | "block", _ => mk (.block (Block2.init (Kernel.init k).entry s.n)) (2 * s.n)
      | "diff", ps =>
        if ps.length % 2 != 0 || ps.isEmpty then (s, "bad-op") else
        let arr := ps.toArray
        mk (.diff (Difference.init k fun i => (arr[2 * i]!, arr[2 * i + 1]!))) (ps.length / 2)
      | "partly", [bytes] => mk (.partly (Partly.init (Kernel.init k).entry s.n bytes 8) s.n) s.n
      | "gauss", [_, _] => mk (.gauss (Gaussian.init k id)) s.n       -- observed through the decoded distance
      | "exmod", sc =>
        if sc.length != s.n then (s, "bad-op") else
        let arr := sc.toArray
        mk (.exmod (ExMod.init k fun i => ((2 ^ arr[i]! : Nat) : Int)) s.exfixed) s.n
      | _, _ => (s, "bad-op")
  | _, _ =>
    match s.w, args.mapM String.toNat? with
    | some w, some a =>
      match op, a with
      | "wflip", [i, j] => ({ s with w := some (w.flip i j) }, "ok")
      | "wentry", [i, j] => (s, s!"R={w.entry i j}")
      | "wrow", [k, st, e] => (s, s!"R={showList (w.row k st e)}")
      | "wmatrix", [] =>
        let all := (List.range s.size).flatMap fun i => (List.range s.size).map fun j => w.matrix s.k2fixed s.size i j
        match all.mapM id with
        | some l => (s, s!"R={showList l}")
        | none => (s, "bad-op")
      | "wcache", [cap] =>
        let cm : CMG W Int := CMG.init s.size w cap
        ({ s with cm := some cm }, showState s.size cm.cache)
      | _, _ =>
        -- c<op>: the CachedMatrix on top of the wrapper
        match s.cm with
        | some cm =>
          if op.startsWith "c" then
            match cmStep wOps cm (op.drop 1).toString a with
            | some (cm', o) => ({ s with cm := some cm', w := some cm'.w }, o)
            | none => (s, "bad-op")
          else (s, "bad-op")
        | none => (s, "bad-op")
    | _, _ => (s, "bad-op")

def step (s : St) (line : String) : St × String :=
  let s := { s with ctr := s.ctr + 1 }
  let toks := (line.trimAscii.toString.splitOn " ").filter (· ≠ "")
  match toks with
  | [] => (s, "")
  | op :: args =>
    if op.startsWith "w" || (op.startsWith "c" && op != "clear") then
      let (ws, o) := wstep s.ws op args
      ({ s with ws := ws }, o)
    else
    match args.mapM String.toNat? with
    | none => (s, "bad-op")
    | some a =>
      let st (cm : CMG (SharkVerif.KM.Kernel Int) Int) (r : String) : St × String :=
        ({ s with cm := cm }, r ++ showState s.n cm.cache)
      let raw (c : LRUP Int) : St × String := st { s.cm with cache := c } ""
      match op, a with
      | "new", [n, cap] =>
        let cm : CMG (SharkVerif.KM.Kernel Int) Int := CMG.init n (SharkVerif.KM.Kernel.init baseEntry) cap
        ({ s with n := n, cm := cm, ctr := 0 }, showState n cm.cache)
      -- raw LRU operations on the cache of the current matrix
      | "get", [i, size] => raw (s.cm.cache.getCacheLine i size (freshVal s.ctr i))
      | "resize", [i, size] => raw (s.cm.cache.resizeLine i size (freshVal s.ctr i))
      | "mark", [i] => raw (s.cm.cache.markForDeletion i)
      | "swap", [i, j] => raw (s.cm.cache.swapLineIndices i j)
      | _, _ =>
        match cmStep synthOps s.cm op a with
        | some (cm, o) => ({ s with cm := cm }, o)
        | none => (s, "bad-op")

partial def loop (h : IO.FS.Stream) (out : IO.FS.Stream) (s : St) : IO Unit := do
  let line ← h.getLine
  if line.isEmpty then return ()
  let (s', o) := step s line
  out.putStrLn o
  loop h out s'

def main : IO Unit := do
  loop (← IO.getStdin) (← IO.getStdout) {}
