/-
Line-protocol driver for the C08 models (`Model/Smo.lean` + T0-generated
`Gen/Analytic.lean`).  Same protocol as harness/c08.cpp: one op line in, one
observation line out.

Numbers are exact binary tokens `m@e` (value m·2^e, m odd) | `0@0` | `-0@0` | `nan` | `inf` | `-inf`.

The driver keeps TWO instances of the same polymorphic model:
* `Float` — its state is printed and compared bit-for-bit with the C++;
* `Rat`   — the instance the theorems are about; it is advanced by the same
  primitive operations and the suffix `;q=1` says that it still coincides exactly
  with the Float state (`;q=0`: some step rounded).  `;fv=` is the exact
  objective value of the Rat model.
Imports core-Lean model files only (native executable).
-/
import SharkVerif.Model.Smo
open SharkVerif.Smo SharkVerif.Qp SharkVerif.Gen.Analytic

/-! ### number tokens -/

def pow2 (e : Int) : Rat := if e ≥ 0 then ((2 : Rat) ^ e.toNat) else 1 / ((2 : Rat) ^ (-e).toNat)

/-- decode an IEEE double into sign/mantissa/exponent; `none` for nan/inf -/
def floatParts (x : Float) : Option (Bool × Nat × Int) :=
  let b := x.toBits.toNat
  let sign := b >>> 63 == 1
  let ex := (b >>> 52) &&& 0x7ff
  let fr := b &&& (2^52 - 1)
  if ex == 0x7ff then none
  else if ex == 0 then some (sign, fr, -1074) else some (sign, fr + 2^52, (ex : Int) - 1075)

partial def normME (m : Nat) (e : Int) : Nat × Int :=
  if m != 0 && m % 2 == 0 then normME (m / 2) (e + 1) else (m, e)

def floatTok (x : Float) : String :=
  match floatParts x with
  | none => if x.isNaN then "nan" else if x > 0 then "inf" else "-inf"
  | some (sign, m, e) =>
    if m == 0 then (if sign then "-0@0" else "0@0") else
    let (m, e) := normME m e
    s!"{if sign then "-" else ""}{m}@{e}"

def floatToRat? (x : Float) : Option Rat :=
  match floatParts x with
  | none => none
  | some (sign, m, e) => some ((if sign then -1 else 1) * (m : Rat) * pow2 e)

partial def ratDyadic (num : Int) (den : Nat) (e : Int) : Option (Int × Int) :=
  if den == 1 then some (num, e) else if den % 2 == 0 then ratDyadic num (den / 2) (e - 1) else none

def ratTok (x : Rat) : String :=
  if x == 0 then "0@0" else
  match ratDyadic x.num x.den 0 with
  | some (m, e) =>
    let (ma, e) := normME m.natAbs e
    s!"{if m < 0 then "-" else ""}{ma}@{e}"
  | none => s!"{x.num}/{x.den}"

def parseME (t : String) : Option (Int × Int) :=
  match t.splitOn "@" with
  | [m, e] => do
    let neg := m.startsWith "-"
    let mm ← (if neg then (m.drop 1).toString else m).toNat?
    let ee ← e.toInt?
    some (if neg then -(mm : Int) else mm, ee)
  | _ => none

def tokFloat (t : String) : Float :=
  if t == "-0@0" then -0.0 else
  match parseME t with
  | some (m, e) => (Float.ofInt m).scaleB e
  | none => if t == "inf" then 1.0/0.0 else if t == "-inf" then -1.0/0.0 else 0.0/0.0

def tokRat (t : String) : Rat :=
  match parseME t with
  | some (m, e) => (m : Rat) * pow2 e
  | none => 0

/-! ### states -/

def tabArr {β : Type} (n : Nat) (f : Nat → β) : Array β := Array.ofFn (n := n) fun i => f i.val

/-- tabulate every vector of the state into an array (evaluated here, once); the model uses
functions and without this the closures would grow with the history -/
def compact {α : Type} (zero : α) (s : State α) : State α :=
  let perm := tabArr s.n s.perm
  let lin := tabArr s.n s.lin
  let alpha := tabArr s.n s.alpha
  let diag := tabArr s.n s.diag
  let L := tabArr s.n s.L
  let U := tabArr s.n s.U
  let g := tabArr s.n s.g
  let gEdge := tabArr s.n s.gEdge
  let lo := tabArr s.n s.lo
  let up := tabArr s.n s.up
  { s with perm := fun k => perm.getD k 0, lin := fun k => lin.getD k zero, alpha := fun k => alpha.getD k zero,
           diag := fun k => diag.getD k zero, L := fun k => L.getD k zero, U := fun k => U.getD k zero,
           g := fun k => g.getD k zero, gEdge := fun k => gEdge.getD k zero,
           lo := fun k => lo.getD k false, up := fun k => up.getD k false }

def showVec {β : Type} (n : Nat) (f : Nat → β) (tok : β → String) : String :=
  "[" ++ ",".intercalate ((List.range n).map fun k => tok (f k)) ++ "]"

def showState {α : Type} (tok : α → String) (edge : Bool) (s : State α) : String :=
  let b (x : Bool) : String := if x then "1" else "0"
  s!"act={s.active} " ++ (if edge then s!"un={b s.unshrinked} " else "") ++ s!"perm={showVec s.n s.perm toString} a={showVec s.n s.alpha tok} " ++
  s!"g={showVec s.n s.g tok} " ++ (if edge then s!"ge={showVec s.n s.gEdge tok} " else "") ++
  s!"lo={showVec s.n s.lo b} up={showVec s.n s.up b} L={showVec s.n s.boxMin tok} U={showVec s.n s.boxMax tok} " ++
  s!"lin={showVec s.n s.lin tok} d={showVec s.n s.diag tok}"

/-- does the Rat state coincide exactly with the Float state? -/
def sameState (edge : Bool) (r : State Rat) (f : State Float) : Bool :=
  let eqv (a : Nat → Rat) (b : Nat → Float) : Bool :=
    (List.range f.n).all fun k => floatToRat? (b k) == some (a k)
  r.n == f.n && r.active == f.active && r.unshrinked == f.unshrinked &&
  (List.range f.n).all (fun k => r.perm k == f.perm k && r.lo k == f.lo k && r.up k == f.up k) &&
  eqv r.alpha f.alpha && eqv r.g f.g && (!edge || eqv r.gEdge f.gEdge) && eqv r.lin f.lin &&
  eqv r.L f.L && eqv r.U f.U && eqv r.diag f.diag

structure St where
  f : State Float := State.init 0 (fun _ _ => 0.0) true false (fun _ => 0.0) (fun _ => 0.0) (fun _ => 0.0)
  r : State Rat := State.init 0 (fun _ _ => 0) true false (fun _ => 0) (fun _ => 0) (fun _ => 0)
  edge : Bool := false
  live : Bool := true     -- the Rat model still coincides with the Float model

/-- after an op: compare the two instances; once they differ (a step rounded) the Rat model is
frozen (its numbers would grow without bound and nothing is compared against it any more) -/
def sync (s : St) : St := if s.live && !sameState s.edge s.r s.f then { s with live := false } else s

def suffix (s : St) : String :=
  s!" ;q={if s.live then 1 else 0} ;fv={if s.live then ratTok s.r.functionValue else "-"}"

def out (s : St) (pre : String) : St × String :=
  let s := sync s
  (s, pre ++ showState floatTok s.edge s.f ++ suffix s)

/-- apply an operation to the Rat model only while it is live -/
def onRat (s : St) (f : State Rat → State Rat) : State Rat := if s.live then compact 0 (f s.r) else s.r

def evName : Ev → String
  | .unshrink => "unshrink"
  | .shrink b => s!"shrink {if b then 1 else 0}"
  | .smo i j => s!"smo {i} {j}"

/-- the `m_problem.unshrink()` `QpSolver::solve` performs after its loop, whatever the reason for leaving it (repair of
F-C07-8); a no-op on a state that is un-shrunk already, but an event of its own -/
def finalUnshrink (s : St) (acc : Array String) : St × Array String :=
  let r := onRat s fun r => r.unshrink
  let s' : St := sync { s with f := compact 0.0 s.f.unshrink, r := r }
  (s', acc.push (evName Ev.unshrink ++ " " ++ showState floatTok s'.edge s'.f))

/-- run the Float model of `QpSolver::solve`, replay its events on the Rat model -/
partial def solveLoop (strategy : Nat) (eps : Float) (epsR : Rat) (fuel : Nat) (s : St) (counter it : Nat)
    (acc : Array String) : St × Array String × Bool × Nat :=
  if fuel == 0 then (let p := finalUnshrink s acc; (p.1, p.2, false, it)) else
  let (evs, next) := solveIter strategy eps s.f counter
  let (s, acc) := evs.foldl (fun (p : St × Array String) (ev : Ev × State Float) =>
      let r := onRat p.1 fun r => match ev.1 with
        | .unshrink => r.unshrink
        | .shrink _ => (r.shrink epsR).1
        | .smo i j => r.updateSMO i j
      let s' : St := sync { p.1 with f := compact 0.0 ev.2, r := r }
      (s', p.2.push (evName ev.1 ++ " " ++ showState floatTok s'.edge s'.f))) (s, acc)
  match next with
  | none => (let p := finalUnshrink s acc; (p.1, p.2, true, it))
  | some (f', c') => solveLoop strategy eps epsR (fuel - 1) { s with f := compact 0.0 f' } c' (it + 1) acc

section
variable {α : Type} [Add α] [Sub α] [Mul α] [Div α] [Neg α] [LT α] [LE α]
  [DecidableLT α] [DecidableLE α] [BEq α] [OfScientific α]
/-- build the initial state from the tokens of a `new` line -/
def mkState (n : Nat) (eqc sh : Bool) (nums : Array String) (cv : String → α) (zero : α) : State α :=
  let a := nums.map cv
  let K := fun i j => a.getD (i * n + j) zero
  let vec (o : Nat) := fun k => a.getD (n * n + o * n + k) zero
  let s0 := State.init n K eqc sh (vec 0) (vec 1) (vec 2)
  let a0 := vec 3
  if (List.range n).all (fun k => (nums.getD (n * n + 3 * n + k) "") == "0@0") then s0
  else compact zero (s0.setInitialSolution a0)
end

def strategyOf (t : String) : Nat := if t == "mvp" then 0 else if t == "libsvm" then 1 else 2

def step (s : St) (line : String) : St × String :=
  let toks := (line.trimAscii.toString.splitOn " ").filter (· ≠ "")
  match toks with
  | [] => (s, "")
  | "new" :: kind :: nT :: shT :: edgeT :: rest =>
    let n := nT.toNat!
    let eqc := kind == "svm"
    let nums := rest.toArray
    if nums.size != n * n + 4 * n then (s, "bad-op") else
    out { f := mkState n eqc (shT == "1") nums tokFloat 0.0, r := mkState n eqc (shT == "1") nums tokRat 0, edge := edgeT == "1" } ""
  | ["smo", i, j] =>
    let (i, j) := (i.toNat!, j.toNat!)
    out { s with f := compact 0.0 (s.f.updateSMO i j), r := onRat s (·.updateSMO i j) } ""
  | ["asmo", a, b] =>
    let act := s.f.active
    if act == 0 then out s "skip " else
    let (i, j) := (a.toNat! % act, b.toNat! % act)
    if s.f.eqc && i == j then out s "skip " else
    let (i, j) := if s.f.eqc && s.f.g i < s.f.g j then (j, i) else (i, j)
    out { s with f := compact 0.0 (s.f.updateSMO i j), r := onRat s (·.updateSMO i j) } s!"smo {i} {j} "
  | ["aflip", a, b] =>
    let act := s.f.active
    if act == 0 then out s "skip " else
    let (i, j) := (a.toNat! % act, b.toNat! % act)
    out { s with f := compact 0.0 (s.f.flip i j), r := onRat s (·.flip i j) } ""
  | ["flip", i, j] =>
    let (i, j) := (i.toNat!, j.toNat!)
    out { s with f := compact 0.0 (s.f.flip i j), r := onRat s (·.flip i j) } ""
  | ["unshrink"] => out { s with f := compact 0.0 s.f.unshrink, r := onRat s (·.unshrink) } ""
  | ["shrink", e] =>
    let rf := s.f.shrink (tokFloat e)
    out { s with f := compact 0.0 rf.1, r := onRat s (fun r => (r.shrink (tokRat e)).1) } s!"ret={if rf.2 then 1 else 0} "
  | ["select", strat] =>
    let r := s.f.select (strategyOf strat) 0 0
    (s, s!"sel {r.1} {r.2.1} {floatTok r.2.2}")
  | ["ssmo", strat] =>
    -- one solver-style step: the model of the selection criterion chooses the working set
    if s.f.active == 0 then out s "skip " else
    let r := s.f.select (strategyOf strat) 0 0
    if !(r.2.2 > 0.0) then out s "skip " else
    let (i, j) := (r.1, r.2.1)
    out { s with f := compact 0.0 (s.f.updateSMO i j), r := onRat s (·.updateSMO i j) } s!"smo {i} {j} "
  | ["kkt"] => (s, s!"kkt {floatTok s.f.checkKKT}")
  | ["solve", strat, e, maxit] =>
    let (s', evs, acc, it) := solveLoop (strategyOf strat) (tokFloat e) (tokRat e) maxit.toNat! s 0 0 #[]
    let s' := sync s'
    (s', " | ".intercalate (evs.toList ++ [s!"end acc={if acc then 1 else 0} it={it}"]) ++ suffix s')
  | "edge" :: args =>
    match args.map tokFloat with
    | [a, g, Q, L, U] => (s, s!"r {floatTok (solveQuadraticEdge a g Q L U)}")
    | _ => (s, "bad-op")
  | "box" :: args =>
    match args.map tokFloat with
    | [ai, aj, gi, gj, Qii, Qij, Qjj, Li, Ui, Lj, Uj] =>
      let r := solveQuadratic2DBox ai aj gi gj Qii Qij Qjj Li Ui Lj Uj
      (s, s!"r {floatTok r.1} {floatTok r.2}")
    | _ => (s, "bad-op")
  | "tri" :: args =>
    match args.map tokFloat with
    | [ai, aj, gi, gj, Qii, Qij, Qjj, m] =>
      let r := solveQuadratic2DTriangle ai aj gi gj Qii Qij Qjj m
      (s, s!"r {floatTok r.1} {floatTok r.2}")
    | _ => (s, "bad-op")
  | "mg2d" :: args =>
    match args.map tokFloat with
    | [Qii, Qjj, Qij, gi, gj] => (s, s!"r {floatTok (maximumGainQuadratic2D Qii Qjj Qij gi gj 1.0e-12)}")
    | _ => (s, "bad-op")
  | "mgline" :: args =>
    match args.map tokFloat with
    | [Qii, Qjj, Qij, gi, gj] => (s, s!"r {floatTok (maximumGainQuadratic2DOnLine Qii Qjj Qij gi gj 1.0e-12)}")
    | _ => (s, "bad-op")
  | _ => (s, "bad-op")

partial def loop (h : IO.FS.Stream) (o : IO.FS.Stream) (s : St) : IO Unit := do
  let line ← h.getLine
  if line.isEmpty then return ()
  let (s', r) := step s line
  o.putStrLn r
  loop h o s'

def main : IO Unit := do
  loop (← IO.getStdin) (← IO.getStdout) {}
