/-
Line-protocol driver for the C17 model (Model/NN.lean).  Reads the op lines as
ANNOTATED by harness/c17.cpp (tools/c17_drv.py feeds them): after ` | ` a
`build` line carries the dump of the real tree (node address ranks, cut
dimension, threshold, the real order of the index list) and a `query`/`knn`/
`model` line the real per-node lower bounds and isLeft decisions.

What the driver derives itself (and compares with the annotation):
  * kd-trees: the whole construction (`kdTree`): shape, cut dimensions,
    thresholds and the SET of indices of every leaf; the order inside a leaf and
    the address ranks are adopted from the dump (they are decided by
    std::nth_element and by the allocator);
  * kd-trees: every lower bound and isLeft decision (`kdTrace`), compared with
    the annotated values (`lb=ok`);
  * all trees: squared distances, admissibility of the annotated bounds
    (`adm=1`), the complete `IterativeNNQuery` run.
For LC/KHC trees the shape and the per-query bounds are taken from the dump.
Prints exactly the observation lines of harness/c17.cpp.
-/
import SharkVerif.Model.NN
open SharkVerif.NN

def pow2 (e : Nat) : Nat := 2 ^ e

/-- exact double `m e` -> Rat -/
def meToRat (m e : Int) : Rat :=
  if e ≥ 0 then ((m * (pow2 e.toNat : Int) : Int) : Rat)
  else (m : Rat) / ((pow2 (-e).toNat : Nat) : Rat)

partial def stripTwos (m : Int) (e : Int) : Int × Int :=
  if m ≠ 0 ∧ m % 2 = 0 then stripTwos (m / 2) (e + 1) else (m, e)

partial def log2Exact (d : Nat) (k : Nat) : Option Nat :=
  if d = 1 then some k else if d % 2 = 0 then log2Exact (d / 2) (k + 1) else none

/-- Rat -> `m e` as printed by `vh::exactDouble` (dyadic values), else `num/den` -/
def ratME (r : Rat) : String :=
  if r = 0 then "0 0"
  else match log2Exact r.den 0 with
    | some k =>
      let (m, e) := stripTwos r.num (-(k : Int))
      s!"{m} {e}"
    | none => s!"{r.num}/{r.den}"

def ratInt (r : Rat) : String := if r.den = 1 then toString r.num else s!"?{r.num}/{r.den}"

def radiusStr (r : Rat) : String := if r = big then "BIG" else ratME r

def joinWith (sep : String) (l : List String) : String := sep.intercalate l

def sortNat (l : List Nat) : List Nat := (l.toArray.qsort (· < ·)).toList

/-- canonical rendering (leaf index SETS), as `canonTree` in the harness -/
def canon (kd : Bool) : STree → String
  | .leaf _ ix => "L[" ++ joinWith "," ((sortNat ix).map toString) ++ "]"
  | .node _ cd thr l r => (if kd then s!"N({cd},{ratME thr})" else "N") ++ canon kd l ++ canon kd r

/-- parse the preorder dump `N rank cd m e | L rank size idx...` -/
partial def parseDump : List String → Option (STree × List String)
  | "L" :: rk :: sz :: rest => do
    let rank ← rk.toNat?
    let n ← sz.toNat?
    let ix ← (rest.take n).mapM String.toNat?
    if ix.length ≠ n then none else pure (.leaf rank ix, rest.drop n)
  | "N" :: rk :: cd :: m :: e :: rest => do
    let rank ← rk.toNat?
    let c ← cd.toNat?
    let mi ← m.toInt?
    let ei ← e.toInt?
    let (l, rest1) ← parseDump rest
    let (r, rest2) ← parseDump rest1
    pure (.node rank c (meToRat mi ei) l r, rest2)
  | _ => none

/-- the model tree with the leaf order and ranks of the real one, provided both
have the same shape, cuts, thresholds and leaf index sets -/
def adopt : STree → STree → Option STree
  | .leaf _ ix, .leaf rk ix' => if sortNat ix = sortNat ix' then some (.leaf rk ix') else none
  | .node _ cd thr l r, .node rk cd' thr' l' r' =>
    if cd = cd' ∧ thr = thr' then do
      let a ← adopt l l'
      let b ← adopt r r'
      pure (.node rk cd thr a b)
    else none
  | _, _ => none

def parsePairs : List String → List (Rat × Bool)
  | m :: e :: b :: rest =>
    match m.toInt?, e.toInt? with
    | some mi, some ei => (meToRat mi ei, b = "1") :: parsePairs rest
    | _, _ => []
  | _ => []

/-- (lb, goLeft) of every node in preorder -/
def tracePairs : TTree → List (Rat × Bool)
  | .leaf _ lb _ => [(lb, false)]
  | .node _ lb gl l r => (lb, gl) :: (tracePairs l ++ tracePairs r)

def statusChars : TTree → String
  | .leaf q _ _ => if q then "C" else "N"
  | .node st _ _ l r => (match st with | .unq => "N" | .part => "P" | .done => "C") ++ statusChars l ++ statusChars r

def ttNodes : TTree → Nat
  | .leaf .. => 1
  | .node _ _ _ l r => 1 + ttNodes l + ttNodes r

/-- preorder id of the node at a top-down path -/
def idAt : TTree → List Bool → Nat → Nat
  | _, [], id => id
  | .leaf .., _ :: _, id => id
  | .node _ _ _ l r, b :: p, id => if b then idAt l p (id + 1) else idAt r p (id + 1 + ttNodes l)

/-- is every lower bound below the distance of every point of its cell?  `slack` = 0 for
kd-trees (exact arithmetic on integer data); LC/KHC bounds are rounded doubles
(normalised normal vector, `dist*dist`), they may exceed the exact value by a few ulps:
relative slack 2^-40 there (floating point, outside the model). -/
def admissible (slack : Rat) (dist : Nat → Rat) : TTree → Bool
  | .leaf _ lb lf => lf.pts.all fun i => decide (lb ≤ dist i + slack * (dist i + 1))
  | .node _ lb _ l r => ((l.pts ++ r.pts).all fun i => decide (lb ≤ dist i + slack * (dist i + 1))) &&
      admissible slack dist l && admissible slack dist r

def stateStr (s : QState) : String :=
  let hd := match s.head with
    | none => "-"
    | some p => toString (idAt s.tree p.reverse 0)
  s!"r={radiusStr s.radius} qs={s.queue.length} nb={s.neighbors} ni={s.nextIndex} hd={hd} st={statusChars s.tree}"

structure St where
  dim : Nat := 0
  pts : Array Point := #[]
  labels : Array Nat := #[]
  kind : String := ""
  tree : Option STree := none     -- the real tree (model construction + adopted order for kd)
  ok : Bool := false
  poly : Bool := false            -- metric of the tree: feature distance of the kernel (<x,y>+1)^2 (`khcp`)

def St.P (s : St) (i : Nat) : Point := s.pts.getD i []

/-- squared distance of point `i` to the query in the metric of the current tree -/
def St.dist (s : St) (q : Point) (i : Nat) : Rat :=
  if s.poly then featureDist2 (polyKernel 2 1) (s.P i) q else dist2 (s.P i) q

/-- split the annotation of a batched op at the `|` separators -/
partial def splitBars (toks : List String) : List (List String) :=
  match toks with
  | [] => []
  | _ => toks.takeWhile (· ≠ "|") :: splitBars ((toks.dropWhile (· ≠ "|")).drop 1)

def chunks (d : Nat) (xs : List Int) : Nat → List (List Int)
  | 0 => []
  | m + 1 => xs.take d :: chunks d (xs.drop d) m

def splitBar (toks : List String) : List String × List String :=
  (toks.takeWhile (· ≠ "|"), (toks.dropWhile (· ≠ "|")).drop 1)

def runQuery (t : TTree) (n : Nat) : String × List (Option (Rat × Nat)) := Id.run do
  let mut s := init t
  let mut out := "init " ++ stateStr s
  let mut res : List (Option (Rat × Nat)) := []
  for _ in [0:n] do
    let (s', o) := next s
    s := s'
    res := res ++ [o]
    out := out ++ " ; " ++ (match o with | some (d, i) => s!"{ratInt d} {i}" | none => "UB") ++ " " ++ stateStr s
  return (out, res)

/-- build the TTree for a query from the state and the annotation -/
def mkTrace (s : St) (q : Point) (ann : List (Rat × Bool)) : Option (TTree × Bool × Bool) :=
  match s.tree with
  | none => none
  | some tr =>
    let dist := s.dist q
    if s.kind = "kd" then
      let t := kdTrace q dist tr Box.top
      some (t, tracePairs t == ann, admissible 0 dist t)
    else
      let (t, _) := absTrace dist tr ann
      some (t, true, admissible (1 / ((2 ^ 40 : Nat) : Rat)) dist t)

def floatArith : Arith Float := { zero := 0.0, add := (· + ·), div := (· / ·), lt := fun a b => a < b }

def ratToFloat (r : Rat) : Float := Float.ofInt r.num / Float.ofNat r.den

/-- `1/d` weights of `BaseNearestNeighbor::eval` on the reported (non-squared) distance -/
def invWeight (d2 : Rat) : Float :=
  let d := Float.sqrt (ratToFloat d2)
  if d < 1e-100 then 1e100 else 1.0 / d

/-- one query point of a `knn` / `model` op -/
def pattern (s : St) (op : String) (k w : Nat) (qi : List Int) (annToks : List String) : Option String :=
  let q : Point := qi.map fun (x : Int) => (x : Rat)
  let n := s.pts.size
  let dist := s.dist q
  match mkTrace s q (parsePairs annToks) with
  | none => none
  | some (t, lbok, adm) =>
    let flags := (if lbok then "" else " LB-MISMATCH") ++ (if adm then "" else " INADMISSIBLE")
    let tres := (treeKnn t k).filterMap id
    let lab := fun i => s.labels.getD i 0
    let tnb := tres.map fun (d, i) => (d, lab i)
    let bf := bruteForce dist n n
    let bfk := bf.take k
    let dk := (bfk.getLast?.map (·.1)).getD 0
    if op = "knn" then
      let inner := sortNat ((bfk.filter fun x => decide (x.1 < dk)).map fun x => lab x.2)
      some ("tree" ++ String.join (tnb.map fun (d, l) => s!" {ratInt d}:{l}")
         ++ " simple" ++ String.join (bfk.map fun x => s!" {ratInt x.1}")
         ++ " inner" ++ String.join (inner.map fun l => s!" {l}") ++ flags)
    else
      let numClasses := (s.labels.foldl max 0) + 1
      let bnb := bfk.map fun x => (x.1, lab x.2)
      let lastLab := lab ((bfk.getLast?.map (·.2)).getD 0)
      let ambiguous : Bool := match bf[k]? with
        | some nxt => decide (nxt.1 = dk) && (bf.any fun x => decide (x.1 = dk) && decide (lab x.2 ≠ lastLab))
        | none => false
      let (ct, cs) :=
        if w = 0 then (predictClass ratArith numClasses (fun _ => 1) tnb, predictClass ratArith numClasses (fun _ => 1) bnb)
        else (predictClass floatArith numClasses invWeight tnb, predictClass floatArith numClasses invWeight bnb)
      let votes := if w = 0 then " votes" ++ String.join ((voteCounts numClasses tnb).map fun c => s!" {c}") else ""
      some (s!"class tree={ct} simple=" ++ (if ambiguous then "*" else toString cs) ++ votes ++ flags)

def step (s : St) (line : String) : St × String :=
  let toks := (line.trimAscii.toString.splitOn " ").filter (· ≠ "")
  let (toks, annToks) := splitBar toks
  match toks with
  | [] => (s, "")
  | ["batch", _] => (s, "ok")     -- batch size of the C++ data set: invisible to the model
  | "data" :: d :: n :: rest =>
    match d.toNat?, n.toNat?, rest.mapM String.toInt? with
    | some d, some n, some xs =>
      if xs.length ≠ d * n ∨ n = 0 ∨ d = 0 then (s, "bad-op") else
      let pts := (List.range n).map fun i => ((xs.drop (i * d)).take d).map fun (x : Int) => (x : Rat)
      ({ dim := d, pts := pts.toArray, labels := (List.replicate n 0).toArray }, s!"ok n={n} d={d}")
    | _, _, _ => (s, "bad-op")
  | "labels" :: rest =>
    match rest.mapM String.toNat? with
    | some ls => if ls.length = s.pts.size then ({ s with labels := ls.toArray }, "ok") else (s, "bad-op")
    | none => (s, "bad-op")
  | ["build", kind, md, mb] =>
    match md.toNat?, mb.toNat?, parseDump annToks with
    | some md, some mb, some (real, _) =>
      let n := s.pts.size
      let perm := sortNat real.idx == List.range n
      if kind = "kd" then
        let model := kdTree s.P s.dim n md mb
        -- printed: the MODEL's construction; the real order/ranks are adopted only if consistent
        -- (if they disagree the `tree` line differs; the queries then run on the real tree so that
        -- the model reproduces what the real search does on it)
        let tr := (adopt model real).getD real
        ({ s with kind := kind, poly := false, tree := some tr, ok := (adopt model real).isSome },
          s!"tree {canon true model} nodes={model.nodes} perm={if perm then 1 else 0}")
      else if kind = "lc" ∨ kind = "khc" ∨ kind = "khcp" then
        ({ s with kind := kind, poly := (kind = "khcp"), tree := some real, ok := true },
          s!"tree {canon false real} nodes={real.nodes} perm={if perm then 1 else 0}")
      else (s, "bad-op")
    | _, _, _ => (s, "bad-op")
  | "query" :: rest =>
    match rest.mapM String.toInt? with
    | some qs =>
      if qs.length ≠ s.dim then (s, "bad-op") else
      let q : Point := qs.map fun (x : Int) => (x : Rat)
      match mkTrace s q (parsePairs annToks) with
      | none => (s, "bad-op")
      | some (t, lbok, adm) =>
        let (out, _) := runQuery t s.pts.size
        (s, out ++ (if lbok then "" else " LB-MISMATCH") ++ (if adm then "" else " INADMISSIBLE"))
    | none => (s, "bad-op")
  | op :: k :: w :: rest =>
    if op ≠ "knn" ∧ op ≠ "model" then (s, "bad-op") else
    match k.toNat?, w.toNat?, rest.mapM String.toInt? with
    | some k, some w, some qs =>
      if s.dim = 0 ∨ qs.length = 0 ∨ qs.length % s.dim ≠ 0 then (s, "bad-op") else
      -- a batch of m query points, one observation per point, joined by " / "
      let m := qs.length / s.dim
      let anns := splitBars annToks
      let outs := (List.range m).map fun p =>
        pattern s op k w ((chunks s.dim qs m).getD p []) (anns.getD p [])
      if outs.any (·.isNone) then (s, "bad-op") else (s, joinWith " / " (outs.filterMap id))
    | _, _, _ => (s, "bad-op")
  | _ => (s, "bad-op")

partial def loop (h : IO.FS.Stream) (out : IO.FS.Stream) (s : St) : IO Unit := do
  let line ← h.getLine
  if line.isEmpty then return ()
  let (s', o) := step s line
  out.putStrLn o
  loop h out s'

def main : IO Unit := do
  loop (← IO.getStdin) (← IO.getStdout) {}
