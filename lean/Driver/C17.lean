/-
Line-protocol driver for the C17 model (Model/NN.lean).  Reads the op lines as
ANNOTATED by harness/c17.cpp (tools/c17_drv.py feeds them): after ` | ` a
`build` line carries the dump of the real tree (node address ranks, cut
dimension, threshold, the real order of the index list) and a `query`/`knn`/
`model` line the real per-node lower bounds and isLeft decisions.

What the driver derives itself (and compares with the annotation):
  * kd-trees: the whole construction (`kdTree`): shape, cut dimensions,
    thresholds and the SET of indices of every leaf; the order inside a leaf and
    the address ranks are adopted from the dump (they are decided by
    std::nth_element and by the allocator);
  * kd-trees: every lower bound and isLeft decision (`kdTrace`), compared with
    the annotated values (`lb=ok`);
  * all trees: squared distances, admissibility of the annotated bounds
    (`adm=1`), the complete `IterativeNNQuery` run.
For LC/KHC trees the shape and the per-query bounds are taken from the dump.
Prints exactly the observation lines of harness/c17.cpp.
-/
import SharkVerif.Model.NN
open SharkVerif.NN

def pow2 (e : Nat) : Nat := 2 ^ e

/-- exact double `m e` -> Rat -/
def meToRat (m e : Int) : Rat :=
  if e ≥ 0 then ((m * (pow2 e.toNat : Int) : Int) : Rat)
  else (m : Rat) / ((pow2 (-e).toNat : Nat) : Rat)

partial def stripTwos (m : Int) (e : Int) : Int × Int :=
  if m ≠ 0 ∧ m % 2 = 0 then stripTwos (m / 2) (e + 1) else (m, e)

partial def log2Exact (d : Nat) (k : Nat) : Option Nat :=
  if d = 1 then some k else if d % 2 = 0 then log2Exact (d / 2) (k + 1) else none

/-- Rat -> `m e` as printed by `vh::exactDouble` (dyadic values), else `num/den` -/
def ratME (r : Rat) : String :=
  if r = 0 then "0 0"
  else match log2Exact r.den 0 with
    | some k =>
      let (m, e) := stripTwos r.num (-(k : Int))
      s!"{m} {e}"
    | none => s!"{r.num}/{r.den}"

def ratInt (r : Rat) : String := if r.den = 1 then toString r.num else s!"?{r.num}/{r.den}"

def radiusStr (r : Rat) : String := if r = big then "BIG" else ratME r

def joinWith (sep : String) (l : List String) : String := sep.intercalate l

def sortNat (l : List Nat) : List Nat := (l.toArray.qsort (· < ·)).toList

/-- canonical rendering (leaf index SETS), as `canonTree` in the harness -/
def canon (kd : Bool) : STree → String
  | .leaf _ ix => "L[" ++ joinWith "," ((sortNat ix).map toString) ++ "]"
  | .node _ cd thr l r => (if kd then s!"N({cd},{ratME thr})" else "N") ++ canon kd l ++ canon kd r

/-- the dump of the real tree: kd nodes carry the cut dimension (`a`), LC/KHC nodes the pivot pair
`(a, b)` = (positive, negative); `thr` is the real `m_threshold` -/
inductive RTree where
  | leaf (rank : Nat) (idx : List Nat)
  | node (rank : Nat) (a b : Nat) (thr : Rat) (l r : RTree)
deriving Inhabited

def RTree.idx : RTree → List Nat
  | .leaf _ ix => ix
  | .node _ _ _ _ l r => l.idx ++ r.idx

def RTree.toS : RTree → STree
  | .leaf rk ix => .leaf rk ix
  | .node rk a _ thr l r => .node rk a thr l.toS r.toS

/-- parse the preorder dump `N rank cd m e | P rank pos neg m e | L rank size idx...` -/
partial def parseDump : List String → Option (RTree × List String)
  | "L" :: rk :: sz :: rest => do
    let rank ← rk.toNat?
    let n ← sz.toNat?
    let ix ← (rest.take n).mapM String.toNat?
    if ix.length ≠ n then none else pure (.leaf rank ix, rest.drop n)
  | "N" :: rk :: cd :: m :: e :: rest => do
    let rank ← rk.toNat?
    let c ← cd.toNat?
    let mi ← m.toInt?
    let ei ← e.toInt?
    let (l, rest1) ← parseDump rest
    let (r, rest2) ← parseDump rest1
    pure (.node rank c 0 (meToRat mi ei) l r, rest2)
  | "P" :: rk :: a :: b :: m :: e :: rest => do
    let rank ← rk.toNat?
    let a ← a.toNat?
    let b ← b.toNat?
    let mi ← m.toInt?
    let ei ← e.toInt?
    let (l, rest1) ← parseDump rest
    let (r, rest2) ← parseDump rest1
    pure (.node rank a b (meToRat mi ei) l r, rest2)
  | _ => none

def absR (r : Rat) : Rat := if r < 0 then -r else r

/-- equal up to the rounding of the C++ doubles (relative 2^-40) -/
def relClose (a b : Rat) : Bool := decide (absR (a - b) ≤ (1 / ((2 ^ 40 : Nat) : Rat)) * (1 + absR b))

/-- LC/KHC construction, node by node on the REAL tree: at every real inner node the model's
`splitList` on the scaled projections for the real pivot pair (the step of `buildPiv`) must produce the
real children's index sets and (up to rounding) the real threshold; the pivot pair must be a pair of
maximal distance of the cell (cells of at most 25 points: `calculateNormal` sees all of them); a
real leaf above the bucket size must be unsplittable (all points at distance 0).  Where the IDEAL
projections of points on both sides of the real cut are equal (the rounded doubles of the C++ break
the tie), the real cut is accepted if it is consistent with the ideal order; such nodes are counted.
Returns the real structure with the model's (scaled) thresholds, the complaints and the tie count. -/
partial def checkPiv (k : Point → Point → Rat) (P : Nat → Point) (bucket : Nat) :
    RTree → PTree × List String × Nat
  | .leaf rk ix =>
    let fd := fun i j => featureDist2 k (P i) (P j)
    let bad := if ix.length ≤ bucket ∨ ix.length > 25 then []
      else if ix.all fun i => ix.all fun j => decide (fd i j = 0) then [] else ["leaf-could-be-split"]
    (.leaf rk ix, bad, 0)
  | .node rk a b thr l r =>
    let I := l.idx ++ r.idx
    let pn := (a, b)
    let val := fun i => projVal k P pn (P i)
    let D := pivD k P pn
    let fd := fun i j => featureDist2 k (P i) (P j)
    let b1 := if I.contains a ∧ I.contains b then [] else ["pivot-outside-cell"]
    let b2 := if I.length ≤ 25 ∧ !(I.all fun i => I.all fun j => decide (fd i j ≤ D)) then ["pivot-not-farthest"] else []
    let b3 := if I.length ≤ bucket then ["split-below-bucket"] else []
    let (thr', b4, tie) := match splitList val I with
      | none => ((0 : Rat), ["model-cannot-split"], 0)
      | some s =>
        if s.left.isPerm l.idx ∧ s.right.isPerm r.idx then
          -- real threshold t (a rounded double, in true units) against the model's scaled one: |t*sqrt(D) - s.thr|
          -- is small against the size M of the projections it was averaged from (no square root: squares compared)
          let eps : Rat := 1 / ((2 ^ 40 : Nat) : Rat)
          let M := I.foldl (fun m i => if m < absR (val i) then absR (val i) else m) 0
          let A := thr * thr * D
          let lo := if absR s.thr ≤ eps * M then 0 else absR s.thr - eps * M
          let hi := absR s.thr + eps * M
          let okMag := decide (lo * lo ≤ A ∧ A ≤ hi * hi)
          let okSign := decide (absR s.thr ≤ eps * M) || decide ((thr < 0 ∧ s.thr < 0) ∨ (0 < thr ∧ 0 < s.thr))
          (s.thr, if okMag ∧ okSign then [] else ["threshold"], 0)
        else
          let maxL := maxOver val l.idx
          let minR := minOver val r.idx
          if l.idx ≠ [] ∧ r.idx ≠ [] ∧ maxL = minR then (maxL, [], 1) else (s.thr, ["split-differs"], 0)
    let (lt, bl, tl) := checkPiv k P bucket l
    let (rt, br, tr) := checkPiv k P bucket r
    (.node rk pn thr' lt rt, b1 ++ b2 ++ b3 ++ b4 ++ bl ++ br, tie + tl + tr)

/-- per node in preorder: does the query lie exactly on the node's (ideal) plane? -/
def planeFlags (k : Point → Point → Rat) (P : Nat → Point) (q : Point) : PTree → List Bool
  | .leaf _ _ => [false]
  | .node _ pn thr l r => decide (projVal k P pn q = thr) :: (planeFlags k P q l ++ planeFlags k P q r)

def ptNodes : PTree → Nat
  | .leaf .. => 0
  | .node _ _ _ l r => 1 + ptNodes l + ptNodes r

def parsePairs : List String → List (Rat × Bool)
  | m :: e :: b :: rest =>
    match m.toInt?, e.toInt? with
    | some mi, some ei => (meToRat mi ei, b = "1") :: parsePairs rest
    | _, _ => []
  | _ => []

/-- (lb, goLeft) of every node in preorder -/
def tracePairs : TTree → List (Rat × Bool)
  | .leaf _ lb _ => [(lb, false)]
  | .node _ lb gl l r => (lb, gl) :: (tracePairs l ++ tracePairs r)

def statusChars : TTree → String
  | .leaf q _ _ => if q then "C" else "N"
  | .node st _ _ l r => (match st with | .unq => "N" | .part => "P" | .done => "C") ++ statusChars l ++ statusChars r

def ttNodes : TTree → Nat
  | .leaf .. => 1
  | .node _ _ _ l r => 1 + ttNodes l + ttNodes r

/-- preorder id of the node at a top-down path -/
def idAt : TTree → List Bool → Nat → Nat
  | _, [], id => id
  | .leaf .., _ :: _, id => id
  | .node _ _ _ l r, b :: p, id => if b then idAt l p (id + 1) else idAt r p (id + 1 + ttNodes l)

/-- is every lower bound below the distance of every point of its cell?  `slack` = 0 for
kd-trees (exact arithmetic on integer data); LC/KHC bounds are rounded doubles
(normalised normal vector, `dist*dist`), they may exceed the exact value by a few ulps:
relative slack 2^-40 there (floating point, outside the model). -/
def admissible (slack : Rat) (dist : Nat → Rat) : TTree → Bool
  | .leaf _ lb es => (qpts es).all fun i => decide (lb ≤ dist i + slack * (dist i + 1))
  | .node _ lb _ l r => ((l.pts ++ r.pts).all fun i => decide (lb ≤ dist i + slack * (dist i + 1))) &&
      admissible slack dist l && admissible slack dist r

def stateStr (s : QState) : String :=
  let hd := match s.head with
    | none => "-"
    | some p => toString (idAt s.tree p.reverse 0)
  s!"r={radiusStr s.radius} qs={s.queue.length} nb={s.neighbors} ni={s.nextIndex} hd={hd} st={statusChars s.tree}"

structure St where
  dim : Nat := 0
  pts : Array Point := #[]
  labels : Array Nat := #[]
  kind : String := ""
  tree : Option STree := none     -- the real tree (model construction + adopted order for kd)
  ptree : Option PTree := none    -- LC/KHC: the real structure with the model's scaled thresholds
  ok : Bool := false
  poly : Bool := false            -- metric of the tree: feature distance of the kernel (<x,y>+1)^2 (`khcp`)
  scale : Int := 0                -- coordinates are the integers of the op lines times 2^scale
  pq : Bool := false              -- the real IterativeNNQuery keeps a point queue (repair of K1), not a leaf queue
  ties : Nat := 0                 -- statistics (stderr at the end)
  pivNodes : Nat := 0
  kdNodes : Nat := 0

def St.kernel (s : St) : Point → Point → Rat := if s.poly then polyKernel 2 1 else dot

def St.P (s : St) (i : Nat) : Point := s.pts.getD i []

/-- 2^e -/
def pow2r (e : Int) : Rat := if e ≥ 0 then ((pow2 e.toNat : Nat) : Rat) else 1 / ((pow2 (-e).toNat : Nat) : Rat)

/-- a squared distance in units of the integer grid of the op lines -/
def St.unsq (s : St) (d : Rat) : Rat := d / (pow2r s.scale * pow2r s.scale)

/-- squared distance of point `i` to the query in the metric of the current tree -/
def St.dist (s : St) (q : Point) (i : Nat) : Rat :=
  if s.poly then featureDist2 (polyKernel 2 1) (s.P i) q else dist2 (s.P i) q

/-- split the annotation of a batched op at the `|` separators -/
partial def splitBars (toks : List String) : List (List String) :=
  match toks with
  | [] => []
  | _ => toks.takeWhile (· ≠ "|") :: splitBars ((toks.dropWhile (· ≠ "|")).drop 1)

def chunks (d : Nat) (xs : List Int) : Nat → List (List Int)
  | 0 => []
  | m + 1 => xs.take d :: chunks d (xs.drop d) m

def splitBar (toks : List String) : List String × List String :=
  (toks.takeWhile (· ≠ "|"), (toks.dropWhile (· ≠ "|")).drop 1)

def runQuery (unsq : Rat → Rat) (t : TTree) (n : Nat) : String × List (Option (Rat × Nat)) := Id.run do
  let mut s := init t
  let mut out := "init " ++ stateStr s
  let mut res : List (Option (Rat × Nat)) := []
  for _ in [0:n] do
    let (s', o) := next s
    s := s'
    res := res ++ [o]
    out := out ++ " ; " ++ (match o with | some (d, i) => s!"{ratInt (unsq d)} {i}" | none => "UB") ++ " " ++ stateStr s
  return (out, res)

/-- build the TTree for a query from the state and the annotation -/
def mkTrace (s : St) (q : Point) (ann : List (Rat × Bool)) : Option (TTree × Bool × Bool) :=
  match s.tree with
  | none => none
  | some tr =>
    let dist := s.dist q
    if s.kind = "kd" then
      let t := kdTrace s.pq q dist tr Box.top
      some (t, tracePairs t == ann, admissible 0 dist t)
    else
      let (t, _) := absTrace s.pq dist tr ann
      -- the real (rounded) bounds and isLeft decisions against the ideal ones of the model (`pivTrace`)
      let lbok := match s.ptree with
        | none => false
        | some pt =>
          let ideal := tracePairs (pivTrace s.pq s.kernel s.P q dist pt 0)
          let onPlane := planeFlags s.kernel s.P q pt
          ideal.length = ann.length &&
            ((ideal.zip (ann.zip onPlane)).all fun (i, a, pl) =>
              -- rounded doubles against ideal arithmetic: relative 2^-20 (cancellation in f(q) - threshold for far
              -- queries), absolute 2^-20 grid units squared; a wrong bound is off by O(1)
              decide (absR (a.1 - i.1) ≤ (1 / ((2 ^ 20 : Nat) : Rat)) * (pow2r s.scale * pow2r s.scale + absR i.1))
                && (pl || a.2 == i.2))
      some (t, lbok, admissible (1 / ((2 ^ 40 : Nat) : Rat)) dist t)

/-- exact rendering of a Float as `m e` (the format of vh::exactDouble) -/
partial def normME (m e : Int) : String :=
  if m == 0 then "0 0" else
  if m % 2 == 0 then normME (m / 2) (e + 1) else s!"{m} {e}"

def showFloat (x : Float) : String :=
  if x.isNaN then "nan" else if x.isInf then (if x > 0 then "inf" else "-inf") else
  let b := x.toBits.toNat
  let sign : Int := if b / 2 ^ 63 == 1 then -1 else 1
  let ex : Nat := (b / 2 ^ 52) % 2048
  let frac : Nat := b % 2 ^ 52
  if ex == 0 then normME (sign * Int.ofNat frac) (-1074)
  else normME (sign * Int.ofNat (2 ^ 52 + frac)) (Int.ofNat ex - 1075)

/-- `DBL_MAX`, the key of the padding entries of `SimpleNearestNeighbors` for k > n (squared distance) -/
def dblMax : Rat := (((2 ^ 1024 - 2 ^ 971 : Nat) : Int) : Rat)

def floatArith : Arith Float := { zero := 0.0, add := (· + ·), div := (· / ·), lt := fun a b => a < b }

def ratToFloat (r : Rat) : Float := Float.ofInt r.num / Float.ofNat r.den

/-- `1/d` weights of `BaseNearestNeighbor::eval` on the reported (non-squared) distance -/
def invWeight (d2 : Rat) : Float :=
  let d := Float.sqrt (ratToFloat d2)
  if d < 1e-100 then 1e100 else 1.0 / d

/-- one query point of a `knn` / `model` op -/
def pattern (s : St) (op : String) (k w : Nat) (qi : List Int) (annToks : List String) : Option String :=
  let q : Point := qi.map fun (x : Int) => (x : Rat) * pow2r s.scale
  let n := s.pts.size
  let dist := s.dist q
  match mkTrace s q (parsePairs annToks) with
  | none => none
  | some (t, lbok, adm) =>
    let flags := (if lbok then "" else " LB-MISMATCH") ++ (if adm then "" else " INADMISSIBLE")
    let tres := (treeKnn t k).filterMap id
    let lab := fun i => s.labels.getD i 0
    let tnb := tres.map fun (d, i) => (d, lab i)
    let bf := bruteForce dist n n
    let bfk := bf.take k
    let dk := (bfk.getLast?.map (·.1)).getD 0
    if k > n then
      -- outside the property's quantifier: the tree back-end throws (the model: `next` answers `none` after n
      -- calls), the exhaustive back-end pads its list with (DBL_MAX, label 0) entries, which vote
      let throws := (treeKnn t k).any (·.isNone)
      if op = "knn" then
        some ((if throws then "tree-throws" else "tree-returns") ++ s!" simple-pads={k - n}" ++ flags)
      else if op = "model" then
        let numClasses := (s.labels.foldl max 0) + 1
        let bnb := (bf.map fun x => (x.1, lab x.2)) ++ List.replicate (k - n) (dblMax, 0)
        let cs := if w = 0 then predictClass ratArith numClasses (fun _ => 1) bnb
                  else predictClass floatArith numClasses invWeight bnb
        some (s!"class tree={if throws then "throws" else "returns"} simple={cs}" ++ flags)
      else none
    else if op = "reg" then
      -- NearestNeighborModel<RealVector,RealVector>::eval: out += w*y over the neighbours in the order the tree
      -- back-end reports them, then out /= wsum (the IEEE operations of the C++)
      let y := fun (i : Nat) => (Float.ofNat (lab i), Float.ofInt (((7 * i + 3) % 5 : Nat) - 2))
      let acc := tres.foldl (fun (a : Float × Float × Float) (d, i) =>
        let wt := if w = 0 then 1.0 else invWeight d
        (a.1 + wt * (y i).1, a.2.1 + wt * (y i).2, a.2.2 + wt)) (0.0, 0.0, 0.0)
      let ambiguous : Bool := match bf[k]? with
        | some nxt => decide (nxt.1 = dk)
        | none => false
      -- the exhaustive back-end: the same mean over the brute-force neighbours (any order inside the k-set:
      -- equal up to rounding); it differs from the tree's value exactly where the tree search is wrong (K1)
      let accS := bfk.foldl (fun (a : Float × Float × Float) (d, i) =>
        let wt := if w = 0 then 1.0 else invWeight d
        (a.1 + wt * (y i).1, a.2.1 + wt * (y i).2, a.2.2 + wt)) (0.0, 0.0, 0.0)
      let close := fun (a b : Float) => (a - b).abs ≤ 1e-12 * (1.0 + a.abs)
      let same := close (acc.1 / acc.2.2) (accS.1 / accS.2.2) && close (acc.2.1 / acc.2.2) (accS.2.1 / accS.2.2)
      some (s!"reg tree={showFloat (acc.1 / acc.2.2)},{showFloat (acc.2.1 / acc.2.2)} simple=" ++
        (if ambiguous then "*" else if same then "same" else "DIFF") ++ flags)
    else if op = "knn" then
      let inner := sortNat ((bfk.filter fun x => decide (x.1 < dk)).map fun x => lab x.2)
      some ("tree" ++ String.join (tnb.map fun (d, l) => s!" {ratInt (s.unsq d)}:{l}")
         ++ " simple" ++ String.join (bfk.map fun x => s!" {ratInt (s.unsq x.1)}")
         ++ " inner" ++ String.join (inner.map fun l => s!" {l}") ++ flags)
    else
      let numClasses := (s.labels.foldl max 0) + 1
      let bnb := bfk.map fun x => (x.1, lab x.2)
      let lastLab := lab ((bfk.getLast?.map (·.2)).getD 0)
      let ambiguous : Bool := match bf[k]? with
        | some nxt => decide (nxt.1 = dk) && (bf.any fun x => decide (x.1 = dk) && decide (lab x.2 ≠ lastLab))
        | none => false
      let (ct, cs) :=
        if w = 0 then (predictClass ratArith numClasses (fun _ => 1) tnb, predictClass ratArith numClasses (fun _ => 1) bnb)
        else (predictClass floatArith numClasses invWeight tnb, predictClass floatArith numClasses invWeight bnb)
      let votes := if w = 0 then " votes" ++ String.join ((voteCounts numClasses tnb).map fun c => s!" {c}") else ""
      some (s!"class tree={ct} simple=" ++ (if ambiguous then "*" else toString cs) ++ votes ++ flags)

def step (s : St) (line : String) : St × String :=
  let toks := (line.trimAscii.toString.splitOn " ").filter (· ≠ "")
  let (toks, annToks) := splitBar toks
  match toks with
  | [] => (s, "")
  | ["batch", _] => (s, "ok")     -- batch size of the C++ data set: invisible to the model
  | ["scale", e] =>
    match e.toInt? with
    | some e => if e < -40 ∨ e > 40 then (s, "bad-op") else
      ({ s with scale := e, dim := 0, pts := #[], labels := #[], tree := none, ptree := none }, "ok")
    | none => (s, "bad-op")
  | "data" :: d :: n :: rest =>
    match d.toNat?, n.toNat?, rest.mapM String.toInt? with
    | some d, some n, some xs =>
      if xs.length ≠ d * n ∨ n = 0 ∨ d = 0 then (s, "bad-op") else
      let pts := (List.range n).map fun i => ((xs.drop (i * d)).take d).map fun (x : Int) => (x : Rat) * pow2r s.scale
      ({ s with dim := d, pts := pts.toArray, labels := (List.replicate n 0).toArray, kind := "", tree := none,
                ptree := none, ok := false, poly := false }, s!"ok n={n} d={d}")
    | _, _, _ => (s, "bad-op")
  | "labels" :: rest =>
    match rest.mapM String.toNat? with
    | some ls => if ls.length = s.pts.size then ({ s with labels := ls.toArray }, "ok") else (s, "bad-op")
    | none => (s, "bad-op")
  | ["build", kind, md, mb] =>
    -- the annotation starts with the queue variant of the real IterativeNNQuery (LQ = leaf queue, PQ = point queue)
    let pq := annToks.head? = some "PQ"
    match md.toNat?, mb.toNat?, parseDump (annToks.drop 1) with
    | some md, some mb, some (realR, _) =>
      let n := s.pts.size
      let real := realR.toS
      let perm := sortNat real.idx == List.range n
      if kind = "kd" then
        let model := kdTree s.P s.dim n md mb
        -- printed: the MODEL's construction; the real order/ranks are adopted only if consistent
        -- (if they disagree the `tree` line differs; the queries then run on the real tree so that
        -- the model reproduces what the real search does on it)
        let tr := (adoptKD model real).getD real
        ({ s with kind := kind, poly := false, pq := pq, tree := some tr, ptree := none, ok := (adoptKD model real).isSome,
                  kdNodes := s.kdNodes + model.nodes },
          s!"tree {canon true model} nodes={model.nodes} perm={if perm then 1 else 0}")
      else if kind = "lc" ∨ kind = "khc" ∨ kind = "khcp" then
        let poly := (kind = "khcp")
        let kern : Point → Point → Rat := if poly then polyKernel 2 1 else dot
        let (pt, bad, ties) := checkPiv kern s.P (normBucket mb) realR
        ({ s with kind := kind, poly := poly, pq := pq, tree := some real, ptree := some pt, ok := true,
                  ties := s.ties + ties, pivNodes := s.pivNodes + ptNodes pt },
          s!"tree {canon false real} nodes={real.nodes} perm={if perm then 1 else 0}" ++
            (if bad.isEmpty then "" else " MODEL-MISMATCH:" ++ joinWith "," bad.eraseDups))
      else (s, "bad-op")
    | _, _, _ => (s, "bad-op")
  | "query" :: rest =>
    match rest.mapM String.toInt? with
    | some qs =>
      if qs.length ≠ s.dim then (s, "bad-op") else
      let q : Point := qs.map fun (x : Int) => (x : Rat) * pow2r s.scale
      match mkTrace s q (parsePairs annToks) with
      | none => (s, "bad-op")
      | some (t, lbok, adm) =>
        let (out, _) := runQuery s.unsq t s.pts.size
        (s, out ++ (if lbok then "" else " LB-MISMATCH") ++ (if adm then "" else " INADMISSIBLE"))
    | none => (s, "bad-op")
  | "mt" :: kind :: md :: mb :: k :: nthreads :: reps :: qb :: rest =>
    -- FRESH trees shared by the threads of the loop over batches (harness/c17_mt.cpp): the observation is the
    -- exhaustive search of the model (`bruteForce`), to which the tree search is equal by kd_search_exact /
    -- lc_search_exact_point_queue / khc_search_exact_point_queue - for every thread count, repetition and batch size
    match md.toNat?, mb.toNat?, k.toNat?, nthreads.toNat?, reps.toNat?, qb.toNat?, rest.mapM String.toInt? with
    | some _, some _, some k, some nt, some reps, some qb, some qs =>
      let n := s.pts.size
      let kindOk := kind = "kd" ∨ kind = "lc" ∨ kind = "khc" ∨ kind = "khcp"
      if s.dim = 0 ∨ qs.length = 0 ∨ qs.length % s.dim ≠ 0 ∨ ¬ kindOk ∨ k = 0 ∨ k > n ∨ nt < 1 ∨ nt > 16 ∨ reps = 0 ∨ qb = 0
      then (s, "bad-op") else
      let m := qs.length / s.dim
      let poly := (kind = "khcp")
      let lab := fun i => s.labels.getD i 0
      let numClasses := (s.labels.foldl max 0) + 1
      -- (the batches of the generator often repeat the same query points: each distinct one is searched once)
      let allq := chunks s.dim qs m
      let one := fun (qi : List Int) =>
        let q : Point := qi.map fun (x : Int) => (x : Rat) * pow2r s.scale
        let dist : Nat → Rat := fun i => if poly then featureDist2 (polyKernel 2 1) (s.P i) q else dist2 (s.P i) q
        let bf := bruteForce dist n n
        let bfk := bf.take k
        let dk := (bfk.getLast?.map (·.1)).getD 0
        let lastLab := lab ((bfk.getLast?.map (·.2)).getD 0)
        let ambiguous : Bool := match bf[k]? with
          | some nxt => decide (nxt.1 = dk) && (bf.any fun x => decide (x.1 = dk) && decide (lab x.2 ≠ lastLab))
          | none => false
        let cs := predictClass ratArith numClasses (fun _ => 1) (bfk.map fun x => (x.1, lab x.2))
        String.join (bfk.map fun x => s!"{ratInt (s.unsq x.1)} ") ++ "class=" ++ (if ambiguous then "*" else toString cs)
      let table := allq.eraseDups.map fun qi => (qi, one qi)
      let outs := allq.map fun qi => ((table.find? fun e => e.1 == qi).map (·.2)).getD ""
      (s, "mt " ++ joinWith " / " outs)
    | _, _, _, _, _, _, _ => (s, "bad-op")
  | op :: k :: w :: rest =>
    if op ≠ "knn" ∧ op ≠ "model" ∧ op ≠ "reg" then (s, "bad-op") else
    match k.toNat?, w.toNat?, rest.mapM String.toInt? with
    | some k, some w, some qs =>
      if s.dim = 0 ∨ qs.length = 0 ∨ qs.length % s.dim ≠ 0 then (s, "bad-op") else
      -- a batch of m query points, one observation per point, joined by " / "
      let m := qs.length / s.dim
      let anns := splitBars annToks
      let outs := (List.range m).map fun p =>
        pattern s op k w ((chunks s.dim qs m).getD p []) (anns.getD p [])
      if outs.any (·.isNone) then (s, "bad-op") else (s, joinWith " / " (outs.filterMap id))
    | _, _, _ => (s, "bad-op")
  | _ => (s, "bad-op")

partial def loop (h : IO.FS.Stream) (out : IO.FS.Stream) (s : St) : IO Unit := do
  let line ← h.getLine
  if line.isEmpty then
    -- statistics for the evidence (tools/c17_drv.py collects them)
    (← IO.getStderr).putStrLn s!"STAT pivot_nodes_checked {s.pivNodes} pivot_nodes_with_rounding_tie {s.ties} kd_nodes_modelled {s.kdNodes}"
    return ()
  let (s', o) := step s line
  out.putStrLn o
  loop h out s'

def main : IO Unit := do
  loop (← IO.getStdin) (← IO.getStdout) {}
