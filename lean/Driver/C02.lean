/-
Line-protocol driver for the C02 model (Model/LinSolve.lean): one op line in,
one observation line out, same protocol as harness/c02.cpp (without the `ix=`
field).  All arithmetic is exact (`Rat`); values are printed as `m e`
(= m·2^e, m odd) when dyadic — the format of `vh::exactDouble` — and as `p/q`
otherwise.  Square roots: exact when the argument is a rational square,
otherwise a 2^-64-accurate rational approximation and the line is marked
`approx` (such lines are only compared with a tolerance by the check).
-/
import SharkVerif.Model.LinSolve
import SharkVerif.Model.SolveExpr
import SharkVerif.Model.LinSolveBlocked
import SharkVerif.Gen.SolveRules
open SharkVerif.LinSolve

def parseNum (s : String) : Option Rat :=
  match s.splitOn "/" with
  | [p] => p.toInt?.map fun (v : Int) => (v : Rat)
  | [p, q] => do
    let a ← p.toInt?
    let b ← q.toNat?
    if b = 0 then none else some (mkRat a b)
  | _ => none

def stripTwos : Nat → Int → Nat → Int × Nat
  | 0, m, e => (m, e)
  | fuel + 1, m, e => if m % 2 == 0 && m != 0 then stripTwos fuel (m / 2) (e + 1) else (m, e)

def showRat (q : Rat) : String :=
  if q.num == 0 then "0 0" else
  let d := q.den
  let k := Nat.log2 d
  if 2 ^ k == d then
    if k > 0 then s!"{q.num} -{k}"
    else
      let (m, e) := stripTwos 4096 q.num 0
      s!"{m} {e}"
  else s!"{q.num}/{q.den}"

def showVals (vs : List Rat) : String := " v=" ++ String.join (vs.map fun q => " " ++ showRat q)

/-- exact rational square root if it exists -/
def exactSqrt (q : Rat) : Option Rat :=
  if q < 0 then none else
  let a := Nat.sqrt q.num.toNat
  let b := Nat.sqrt q.den
  if a * a == q.num.toNat && b * b == q.den then some (mkRat a b) else none

/-- the `sqrt` parameter used by the driver: exact root of a rational square; otherwise a
2^-64-accurate approximation (`approx = true`, only used for tiny systems: exact rational
arithmetic on approximated roots blows up exponentially) or 0 -/
def rsqrt (approx : Bool) (q : Rat) : Rat :=
  match exactSqrt q with
  | some s => s
  | none =>
    if q ≤ 0 || !approx then 0 else
    -- sqrt(num/den) = sqrt(num*den)/den, 64 extra bits
    let k := 64
    mkRat (Nat.sqrt (q.num.toNat * q.den * 4 ^ k)) (q.den * 2 ^ k)

structure Args where
  toks : Array String
  pos : Nat := 0

abbrev P := StateT Args Option

def word : P String := do
  let a ← get
  if h : a.pos < a.toks.size then
    set { a with pos := a.pos + 1 }
    pure a.toks[a.pos]
  else failure
def ch : P Char := do let w ← word; pure (w.front)
def nat : P Nat := do let w ← word; match w.toNat? with | some v => pure v | none => failure
def num : P Rat := do let w ← word; match parseNum w with | some v => pure v | none => failure
def nums (k : Nat) : P (Array Rat) := do
  let mut out := Array.mkEmpty k
  for _ in [0:k] do out := out.push (← num)
  pure out
def done : P Unit := do let a ← get; if a.pos == a.toks.size then pure () else failure

def matFn (cols : Nat) (a : Array Rat) : Mat := fun i j => a.getD (i * cols + j) 0
def vecFn (a : Array Rat) : Vec := fun i => a.getD i 0

def parseTri (u t : Char) : P Tri := do
  let up ← (if u == 'l' then pure false else if u == 'u' then pure true else failure)
  let un ← (if t == 'n' then pure false else if t == 'u' then pure true else failure)
  pure ⟨up, un⟩
def parseSide (s : Char) : P Bool := if s == 'L' then pure true else if s == 'R' then pure false else failure
def parseOr (o : Char) : P Bool := if o == 'r' then pure true else if o == 'c' then pure false else failure

def flat (n m : Nat) (f : Nat → Nat → Rat) : List Rat :=
  (List.range n).flatMap fun i => (List.range m).map fun j => f i j

def opTrsv : P String := do
  let t ← parseTri (← ch) (← ch)
  let left ← parseSide (← ch)
  let _ ← parseOr (← ch)
  let n ← nat
  let A := matFn n (← nums (n * n))
  let b := vecFn (← nums n)
  done
  if triSingular t n A then pure "exc invalid_argument" else
  let x := trsvArr t left n A b
  pure ("ok" ++ showVals ((List.range n).map fun i => vget x i))

def opTrsm : P String := do
  let t ← parseTri (← ch) (← ch)
  let left ← parseSide (← ch)
  let _ ← parseOr (← ch)
  let _ ← parseOr (← ch)
  let n ← nat
  let m ← nat
  let A := matFn n (← nums (n * n))
  let Bv ← nums (n * m)
  done
  let B := if left then matFn m Bv else matFn n Bv
  if triSingular t n A && m > 0 then pure "exc invalid_argument" else
  -- the blocked recursion as the C++ runs it (`trsm_recursive`, Block_Size 32; equal to the unblocked
  -- `trsmArr` by `trsmBlocked_eq_trsm`); entry `(i,k)`: system index `i`, right-hand side `k`
  let X := trsmBlockedArr 32 t left n m A B
  if left then pure ("ok" ++ showVals (flat n m fun i k => mget X i k))
  else pure ("ok" ++ showVals (flat m n fun k i => mget X i k))

/-- did every square root come out exact? (`L j j ^ 2 = pivot j`) -/
def rootsExact (n : Nat) (A : Mat) (L : Arr2) : Bool :=
  (List.range n).all fun j => mget L j j * mget L j j == pivotOf A L j

def opPotrf : P String := do
  let u ← ch
  let rowMajor ← parseOr (← ch)
  let n ← nat
  let A0 := matFn n (← nums (n * n))
  done
  let upper := u == 'u'
  let A := if upper then transpose A0 else A0
  -- both scalar kernels reject a pivot `<= 0` (the (row_major, upper) kernel after the repair of
  -- finding C02-potrf-zero-pivot-accepted; `infoOf true` models the unrepaired test `Aii < 0`)
  let _ := rowMajor
  let strict := false
  let small := n ≤ 5
  let L := cholCols (rsqrt small) n A
  -- return value and factor from the blocked recursion as the C++ runs it (`potrf_recursive`, block size 32;
  -- equal to the unblocked loop by `potrfBlocked_eq`)
  let pb := potrfBlocked 32 32 (rsqrt small) n A
  let info := if strict then infoOf strict n A L else pb.2
  if info != 0 then pure s!"ok info={info}" else
  let exact := rootsExact n A L
  if !exact && !small then pure "skip" else
  let out := pb.1
  let ap := if exact then "" else " approx"
  let f : Nat → Nat → Rat := if upper then fun i j => mget out j i else fun i j => mget out i j
  pure (s!"ok{ap} info=0" ++ showVals (flat n n f))

def showPerm (n : Nat) (P : Nat → Nat) : String :=
  " P=" ++ ",".intercalate ((List.range n).map fun i => toString (P i))

def opGetrf : P String := do
  let _ ← parseOr (← ch)
  let n ← nat
  let A := matFn n (← nums (n * n))
  done
  let s := getrf n A
  if s.fail then pure "exc invalid_argument" else
  pure ("ok" ++ showPerm n s.P ++ showVals (flat n n fun i j => mget s.M i j))

/-- pivoted Cholesky with exact roots; `none` if some root was not exact and the system is not tiny -/
def runPstrf (n : Nat) (A : Mat) : Option (PState × Bool) :=
  let eps := pstrfEps n A
  let s := pstrf (rsqrt false) eps n A
  let rank := s.rank.getD n
  let exact := (List.range rank).all fun j => mget s.M j j != 0
  if exact then some (s, true)
  else if n ≤ 5 then some (pstrf (rsqrt true) eps n A, false) else none

def opPstrf : P String := do
  let u ← ch
  let _ ← parseOr (← ch)
  let n ← nat
  let A0 := matFn n (← nums (n * n))
  done
  let upper := u == 'u'
  let A := if upper then transpose A0 else A0
  match runPstrf n A with
  | none => pure "skip"
  | some (s, exact) =>
    let rank := s.rank.getD n
    let ap := if exact then "" else " approx"
    let f : Nat → Nat → Rat := if upper then fun i j => mget s.M j i else fun i j => mget s.M i j
    pure (s!"ok{ap} rank={rank}" ++ showPerm n s.P ++ showVals (flat n n f))

inductive Res where
  | skip
  | exc (what : String)
  | ok (approx : Bool) (vals : List Rat)

/-- the solution of one system: `tag` ∈ tl tu tul tuu spd lu semi; right-hand side number `k` is
column `k` (left) or row `k` (right) of the `n × m` / `m × n` array `Bv`; a vector rhs is `k = 0` -/
def solveCore (tag : String) (left isVec : Bool) (n m : Nat) (A : Mat) (Bv : Array Rat) : Res :=
  let rhs (k : Nat) : Vec :=
    if isVec then vecFn Bv else if left then (fun i => Bv.getD (i * m + k) 0) else (fun i => Bv.getD (k * n + i) 0)
  let finish (ap : Bool) (sol : Nat → Array Rat) : Res :=
    let cols := (List.range m).map sol |>.toArray
    let X (k i : Nat) : Rat := vget (cols.getD k #[]) i
    if isVec then .ok ap ((List.range n).map fun i => X 0 i)
    else if left then .ok ap (flat n m fun i k => X k i)
    else .ok ap (flat m n fun k i => X k i)
  let tri (t : Tri) : Res :=
    if triSingular t n A && m > 0 then .exc "invalid_argument" else finish false fun k => trsvArr t left n A (rhs k)
  match tag with
  | "tl" => tri ⟨false, false⟩
  | "tu" => tri ⟨true, false⟩
  | "tul" => tri ⟨false, true⟩
  | "tuu" => tri ⟨true, true⟩
  | "spd" =>
    let small := n ≤ 5
    let L := cholCols (rsqrt small) n A
    let exact := rootsExact n A L
    if !exact && !small then .skip else
    finish (!exact) fun k => cholSolveArr n L (rhs k)
  | "lu" =>
    let s := getrf n A
    if s.fail then .exc "invalid_argument" else
    finish false fun k => if left then luSolveLeftArr n s (rhs k) else luSolveRightArr n s (rhs k)
  | "semi" =>
    match runPstrf n A with
    | none => .skip
    | some (s, exact) =>
      let rank := s.rank.getD n
      let small := n ≤ 5
      let F : Mat := fun i j => mget s.M i j
      let G : Mat := fun a c => sum n fun i => F i a * F i c
      let C : Arr2 := if rank = n then #[] else cholCols (rsqrt small) rank G
      let exact2 := rank = n || rootsExact rank G C
      if !exact2 && !small then .skip else
      finish (!(exact && exact2)) fun k => semiApplyArr n (s, C) (rhs k)
  | _ => .skip


/-! ## conjugate gradient through the expression layer

The harness writes the solve in many forms; what each form computes once the rewrites of `solve.hpp` have been
applied is obtained here by building the expression, rewriting it with the rule set REGENERATED from `solve.hpp`
(`Gen/SolveRules.lean`) and evaluating the result with the modelled conjugate-gradient kernels (vector overload
for `matrix_vector_solve`, matrix overload for `matrix_matrix_solve` / the evaluated `matrix_inverse`). -/

structure Val where
  rows : Nat
  cols : Nat
  a : Arr2

def Val.get (v : Val) (i j : Nat) : Rat := mget v.a i j
def Val.ofFn (r c : Nat) (f : Nat → Nat → Rat) : Val := ⟨r, c, matOf r c f⟩

structure Env where
  n : Nat
  mats : Nat → Option Val
  vecs : Nat → Option Val

/-- run the conjugate-gradient model; `none` = not converged within the cap although no iteration limit was given -/
def runCG (vecKernel : Bool) (eps : Rat) (maxit : Nat) (n : Nat) (A : Mat) (b : Vec) : Option (Array Rat) :=
  let steps := if maxit = 0 then n + 2 else maxit
  let s := if vecKernel then cgVec eps steps n A b else cgCol eps steps n A b
  if maxit = 0 && !s.done then none else some (vecOf n s.x)

partial def evalE (env : Env) : E → Option Val
  | .mat i => env.mats i
  | .vec i => env.vecs i
  | .unit i => some (Val.ofFn env.n 1 fun k _ => if k = i then 1 else 0)
  | .trans e => do let v ← evalE env e; pure (Val.ofFn v.cols v.rows fun i j => v.get j i)
  | .row e i => do let v ← evalE env e; pure (Val.ofFn v.cols 1 fun k _ => v.get i k)
  | .mvprod M v => do
    let m ← evalE env M; let x ← evalE env v
    pure (Val.ofFn m.rows 1 fun i _ => sum m.cols fun k => m.get i k * x.get k 0)
  | .mmprod X Y => do
    let x ← evalE env X; let y ← evalE env Y
    pure (Val.ofFn x.rows y.cols fun i j => sum x.cols fun k => x.get i k * y.get k j)
  | .vsolve A b t _ => do
    let a ← evalE env A; let v ← evalE env b
    match t with
    | .cg eps maxit =>
      let x ← runCG true eps maxit env.n (fun i j => a.get i j) (fun i => v.get i 0)
      pure (Val.ofFn env.n 1 fun i _ => vget x i)
    | _ => none
  | .msolve A B t left => do
    let a ← evalE env A; let bv ← evalE env B
    match t with
    | .cg eps maxit =>
      -- left: every column of B; right: `transB = trans(B)`, every column of that, i.e. every row of B
      let cnt := if left then bv.cols else bv.rows
      let mut sols : Arr2 := #[]
      for k in [0:cnt] do
        let x ← runCG false eps maxit env.n (fun i j => a.get i j) (fun i => if left then bv.get i k else bv.get k i)
        sols := sols.push x
      pure (if left then Val.ofFn env.n cnt fun i k => mget sols k i else Val.ofFn cnt env.n fun k i => mget sols k i)
    | _ => none
  | .inv A t => do
    let a ← evalE env A
    match t with
    | .cg eps maxit =>
      let mut sols : Arr2 := #[]
      for k in [0:env.n] do
        let x ← runCG false eps maxit env.n (fun i j => a.get i j) (fun i => if i = k then 1 else 0)
        sols := sols.push x
      pure (Val.ofFn env.n env.n fun i k => mget sols k i)
    | _ => none

/-- the tag of the transposed system with the same state (the harness helper `transposedTag`) -/
def transposedTagH : Tag → Tag
  | .tri x => .tri x.transposed
  | t => t

def cgSolve (t : Tag) (left isVec : Bool) (form : Char) (n m : Nat) (A : Mat) (Bv : Array Rat) : Option (List Rat) := do
  let R := SharkVerif.Gen.SolveRules.rules
  let rows := if isVec then n else if left then n else m
  let cols := if isVec then 1 else if left then m else n
  let Bm : Val := Val.ofFn rows cols fun i j => Bv.getD (i * cols + j) 0
  let Am : Val := Val.ofFn n n A
  let unitVal (sz k : Nat) : Val := Val.ofFn sz 1 fun i _ => if i = k then 1 else 0
  -- ids: mats 0 = A, 1 = B, 2 = At (stored transpose), 3 = identity(cols), 4 = evaluated inverse, 5 = Bt (stored transpose);
  -- vecs 0 = b, 100+k = dense e_k of size `cols`, 200+i = dense e_i of size `rows`
  let mats0 : Nat → Option Val := fun i => if i = 0 then some Am else if i = 1 then some Bm
      else if i = 2 then some (Val.ofFn n n fun i j => A j i)
      else if i = 3 then some (Val.ofFn cols cols fun i j => if i = j then 1 else 0)
      else if i = 5 then some (Val.ofFn cols rows fun i j => Bm.get j i) else none
  let vecs0 : Nat → Option Val := fun i => if i = 0 then some Bm else if 100 ≤ i ∧ i < 200 then some (unitVal cols (i - 100))
      else if 200 ≤ i then some (unitVal rows (i - 200)) else none
  let env0 : Env := ⟨n, mats0, vecs0⟩
  let needInv := form == 'x' || form == 'y'
  let ainv ← (if needInv then (evalE env0 (.inv (.mat 0) t)).map some else some none : Option (Option Val))
  let env : Env := ⟨n, fun i => if i = 4 then ainv else mats0 i, vecs0⟩
  let A' := E.mat 0; let B' := E.mat 1; let At := E.mat 2; let I' := E.mat 3; let Ai := E.mat 4; let Bt := E.mat 5; let b' := E.vec 0
  let invT := transOpt R (.inv At (transposedTagH t))          -- trans(inv(At, tag^T))
  let flatV (v : Val) : List Rat := flat v.rows v.cols fun i j => v.get i j
  if isVec then
    let e : Option E :=
      if form == 's' || form == 'a' || form == 'k' then some (.vsolve A' b' t left)
      else if form == 'e' then some (.vsolve (transOpt R At) b' t left)
      else if form == 'i' || form == 'b' then some (if left then mvprodOpt R (.inv A' t) b' else vmprodOpt R b' (.inv A' t))
      else if form == 'u' then some (if left then mvprodOpt R invT b' else vmprodOpt R b' invT)
      else if needInv then some (if left then mvprodOpt R Ai b' else vmprodOpt R b' Ai)
      else none
    let v ← evalE env (← e)
    pure (flatV v)
  else
    let ms := E.msolve A' B' t left
    let ip := if left then mmprodOpt R (.inv A' t) B' else mmprodOpt R B' (.inv A' t)
    let whole (e : E) : Option (List Rat) := do let v ← evalE env e; pure (flatV v)
    let byRows (f : Nat → E) : Option (List Rat) := do
      let mut out : List Rat := []
      for i in [0:rows] do
        let v ← evalE env (f i)
        out := out ++ (List.range cols).map fun k => v.get k 0
      pure out
    let byCols (f : Nat → E) : Option (List Rat) := do
      let mut colsV : Array Val := #[]
      for k in [0:cols] do
        colsV := colsV.push (← evalE env (f k))
      pure (flat rows cols fun i k => (colsV.getD k ⟨0, 0, #[]⟩).get i 0)
    if form == 's' || form == 'a' || form == 'k' then whole ms
    else if form == 'i' || form == 'b' then whole ip
    else if form == 'e' then whole (.msolve (transOpt R At) (transOpt R Bt) t left)
    else if needInv then whole (if left then mmprodOpt R Ai B' else mmprodOpt R B' Ai)
    else if form == 'u' then whole (if left then mmprodOpt R invT B' else mmprodOpt R B' invT)
    else if form == 'm' then whole (mmprodOpt R ms I')
    else if form == 'n' then whole (mmprodOpt R ip I')
    else if form == 't' then do
      let v ← evalE env (transOpt R ms)
      pure (flat rows cols fun i j => v.get j i)
    else if form == 'r' then byRows fun i => rowOpt R ms i
    else if form == 'j' then byRows fun i => rowOpt R ip i
    else if form == 'l' then byRows fun i => vmprodOpt R (.vec (200 + i)) ms
    else if form == 'p' then byCols fun k => mvprodOpt R ms (.vec (100 + k))
    else if form == 'q' then byCols fun k => mvprodOpt R ip (.vec (100 + k))
    else if form == 'c' then byCols fun k => colOpt R ms k
    else none

/-- `cg` (= `conjugate_gradient(1e-12, 0)`) or `cg:<eps>:<maxit>` -/
def parseCgTag (tag : String) : Option (Rat × Nat) :=
  if tag == "cg" then some (1 / 1000000000000, 0) else
  match tag.splitOn ":" with
  | ["cg", e, m] => do
    let eps ← parseNum e
    let k ← m.toNat?
    if eps ≤ 0 then none else some (eps, k)
  | _ => none

def showRes : Res → String
  | .skip => "skip"
  | .exc w => "exc " ++ w
  | .ok ap vals => "ok" ++ (if ap then " approx" else "") ++ showVals vals

/-- the forms in which the harness writes / consumes the solve expression; all denote the same `X`
(`r j p q m n`, and `t c l` where the transpose rewrite compiles: lazily consumed matrix solves, matrix right-hand sides only) -/
def formKnown (form : Char) (isVec : Bool) : Bool :=
  "siabexyku".toList.contains form || (!isVec && "rjpqmntcl".toList.contains form)

def opSolve : P String := do
  let tag ← word
  let left ← parseSide (← ch)
  let _ ← parseOr (← ch)
  let kind ← ch
  let form ← ch
  let n ← nat
  let m0 ← nat
  let isVec := kind == 'v'
  if !(kind == 'v' || kind == 'r' || kind == 'c') || !formKnown form isVec then failure
  let A := matFn n (← nums (n * n))
  let m := if isVec then 1 else m0
  let Bv ← nums (n * m)
  done
  if tag.startsWith "cg" then
    match parseCgTag tag with
    | none => failure
    | some (eps, maxit) =>
      -- exact rational conjugate gradient: affordable for small systems, or a few passes on moderate ones
      if !(n ≤ 10 || (maxit != 0 && maxit ≤ 3 && n ≤ 40)) then pure "skip" else
      match cgSolve (.cg eps maxit) left isVec form n m A Bv with
      | none => pure "skip"
      | some vals => pure ("ok approx" ++ showVals vals)
  else
  pure (showRes (solveCore tag left isVec n m A Bv))

/-- `decomp`: one decomposition object, `q` solve requests; the model of every request is the
solve of the corresponding system tag (a decomposition object has no state besides its factor) -/
def opDecomp : P String := do
  let cls ← word
  let _ ← parseOr (← ch)
  let n ← nat
  let q ← nat
  let A0 := matFn n (← nums (n * n))
  let mut reqs : Array (Bool × Bool × Nat × Array Rat) := #[]
  for _ in [0:q] do
    let left ← parseSide (← ch)
    let kind ← ch
    let m0 ← nat
    if !(kind == 'v' || kind == 'r' || kind == 'c') then failure
    let isVec := kind == 'v'
    let m := if isVec then 1 else m0
    let Bv ← nums (n * m)
    reqs := reqs.push (left, isVec, m, Bv)
  done
  -- the symmetric classes read the lower triangle only
  let Asym : Mat := fun i j => if j ≤ i then A0 i j else A0 j i
  let (tag, A) ← (match cls with
    | "chol" => pure ("spd", Asym)
    | "chold" => pure ("spd", Asym)
    | "lu" => pure ("lu", A0)
    | "semi" => pure ("semi", A0)
    | "eig" => pure ("eig", Asym)
    | "eigd" => pure ("eig", Asym)
    | _ => failure : P (String × Mat))
  let mut approx := false
  let mut vals : List Rat := []
  for (left, isVec, m, Bv) in reqs do
    match solveCore tag left isVec n m A Bv with
    | .skip => return "skip"
    | .exc w => return "exc " ++ w
    | .ok ap v => approx := approx || ap; vals := vals ++ v
  if cls == "semi" then
    -- rank and compute_inverse_factor
    match runPstrf n A with
    | none => return "skip"
    | some (s, exact) =>
      let rank := s.rank.getD n
      let small := n ≤ 5
      let F : Mat := fun i j => mget s.M i j
      let G : Mat := fun a c => sum n fun i => F i a * F i c
      let C : Arr2 := if rank = n then #[] else cholCols (rsqrt small) rank G
      let exact2 := rank = n || rootsExact rank G C
      if !exact2 && !small then return "skip"
      let IF := semiInverseFactor n (s, C)
      let ap := approx || !(exact && exact2)
      return "ok" ++ (if ap then " approx" else "") ++ s!" rank={rank}" ++ showVals (vals ++ flat rank n fun a c => mget IF a c)
  pure ("ok" ++ (if approx then " approx" else "") ++ showVals vals)

/-- `cholseq` / `cholup`: `cholesky_decomposition(A)`, `k` rank-one updates on the same object, then
optionally a solve through the updated factor -/
def runCholseq (n : Nat) (A : Mat) (ups : Array (Rat × Rat × Array Rat)) (side : Char) (b : Array Rat) : String := Id.run do
  -- approximated roots only while few of them are chained (exact arithmetic on approximations blows up)
  let small := n ≤ 5 && n * (ups.size + 1) ≤ 12
  let r := rsqrt small
  let C := cholCols r n A
  if infoOf false n A C != 0 then return "skip"
  let mut exact := rootsExact n A C
  if !exact && !small then return "skip"
  let mut L : Arr2 := matOf n n fun i j => mget C j i
  let mut t := 0
  for (alpha, beta, v) in ups do
    if alpha ≤ 0 then return "skip"
    if (exactSqrt alpha).isNone then exact := false
    if !exact && !small then return "skip"
    let s := cholUpdate r alpha beta n L (vecFn v)
    -- every root taken so far (also before a thrown exception) must have been exact, or the system tiny
    if !(s.xs.all fun x => (exactSqrt x).isSome) then exact := false
    if !exact && !small then return "skip"
    if s.fail then return s!"exc invalid_argument at={t}"
    L := s.L
    t := t + 1
  let mut vals := flat n n fun i j => if j ≤ i then mget L i j else 0
  if side != 'N' then
    let Lc : Arr2 := matOf n n fun j i => mget L i j
    let x := cholSolveArr n Lc (vecFn b)
    vals := vals ++ (List.range n).map fun i => vget x i
  return "ok" ++ (if exact then "" else " approx") ++ showVals vals

def opCholseq : P String := do
  let _ ← parseOr (← ch)
  let n ← nat
  let k ← nat
  let A := matFn n (← nums (n * n))
  let mut ups : Array (Rat × Rat × Array Rat) := #[]
  for _ in [0:k] do
    let alpha ← num
    let beta ← num
    let v ← nums n
    ups := ups.push (alpha, beta, v)
  let side ← ch
  if !(side == 'L' || side == 'R' || side == 'N') then failure
  let b ← (if side == 'N' then pure #[] else nums n)
  done
  pure (runCholseq n A ups side b)

def opCholup : P String := do
  let _ ← parseOr (← ch)
  let n ← nat
  let alpha ← num
  let beta ← num
  let A := matFn n (← nums (n * n))
  let v ← nums n
  done
  pure (runCholseq n A #[(alpha, beta, v)] 'N' #[])

def step (line : String) : String :=
  let toks := ((line.trimAscii.toString.splitOn " ").filter (· ≠ "")).toArray
  if toks.size == 0 then "" else
  let run (p : P String) : String :=
    match p.run { toks := toks, pos := 1 } with
    | some (s, _) => s
    | none => "bad-op"
  match toks[0]! with
  | "trsv" => run opTrsv
  | "trsm" => run opTrsm
  | "potrf" => run opPotrf
  | "getrf" => run opGetrf
  | "pstrf" => run opPstrf
  | "solve" => run opSolve
  | "decomp" => run opDecomp
  | "cholseq" => run opCholseq
  | "cholup" => run opCholup
  | _ => "skip"

partial def loop (h : IO.FS.Stream) (out : IO.FS.Stream) : IO Unit := do
  let line ← h.getLine
  if line.isEmpty then return
  out.putStrLn (step line)
  loop h out

def main : IO Unit := do
  let stdin ← IO.getStdin
  let stdout ← IO.getStdout
  loop stdin stdout
  stdout.flush
