/-
Line-protocol driver for the cross-validation model (Model/CV.lean), same protocol as harness/c12.cpp.
Every op line is self-contained: it builds a labelled dataset with ids 0..n-1 and the given labels
(createLabeledDataFromRange with maximum batch size m0) and applies one fold-construction function.

  indexed  k bs m0 n  l_1..l_n  idx_1..idx_n
  fully    k bs m0 n  l_1..l_n  order_1..order_n  part_1..part_n
  iid      k bs m0 n seed l_1..l_n        ! idx_1..idx_n        (observed draw)
  samesize k bs m0 n seed l_1..l_n        ! perm_1..perm_n      (observed shuffle)
  balanced k bs m0 n seed l_1..l_n        ! seq_1..seq_n        (observed dealing order = RecreationIndices.first)
  batch    k bs m0 n seed l_1..l_n        ! perm over the batches (observed)   (bs unused)

usage: drv_c12 [input shape dims…]
-/
import SharkVerif.Model.CV
open SharkVerif.Dataset SharkVerif.CV

def showNats (l : List Nat) : String := "[" ++ " ".intercalate (l.map toString) ++ "]"
def showEl : Nat × Nat → String | (i, l) => s!"{i}:{l}"
def showDS (d : LabeledData Nat Nat) : String :=
  s!"\{ish={showNats d.inputs.shape} lsh={showNats d.labels.shape} part={showNats d.inputs.partitioning} " ++
  s!"lpart={showNats d.labels.partitioning} el=[{" ".intercalate (d.flat.map showEl)}]}"

def showFolds (f : CVFolds Nat Nat) : R String := do
  let parts ← (List.range f.size).mapM fun i => do
    let v ← f.validationFoldIndices i
    let t ← f.trainingFoldIndices i
    let vd ← f.validation i
    let td ← f.training i
    pure s!"F{i}\{v={showNats v} t={showNats t} val={showDS vd} train={showDS td}}"
  pure (s!"DS{showDS f.dataset} " ++ " ".intercalate parts)

def run (ishape : Shape) (op : String) (a : List Nat) (obs : Option (List Nat)) : R String := do
  let mk (m0 : Nat) (labels : List Nat) : R (LabeledData Nat Nat) := do
    require (labels.length > 0)
    LabeledData.createFromRange (List.range labels.length) labels m0 ishape []
  let needObs : R (List Nat) := match obs with
    | some o => pure o
    | none => throw .undefined
  match op, a with
  | "indexed", k :: bs :: m0 :: n :: rest => do
    require (rest.length = 2 * n && bs > 0)
    let set ← mk m0 (rest.take n)
    showFolds (← createCVIndexed set k (rest.drop n) bs)
  | "fully", k :: bs :: m0 :: n :: rest => do
    require (rest.length = 3 * n && bs > 0)
    let set ← mk m0 (rest.take n)
    let order := (rest.drop n).take n
    require (order.all (· < n))
    showFolds (← createCVFullyIndexed set k order (rest.drop (2 * n)) bs)
  | "iid", k :: bs :: m0 :: n :: _seed :: labels => do
    require (labels.length = n && bs > 0 && k > 0)
    let set ← mk m0 labels
    let o ← needObs
    pure (s!"obs={showNats o} " ++ (← showFolds (← createCVIID set k o bs)))
  | "samesize", k :: bs :: m0 :: n :: _seed :: labels => do
    require (labels.length = n && bs > 0 && k > 0)
    let set ← mk m0 labels
    let o ← needObs
    pure (s!"obs={showNats o} " ++ (← showFolds (← createCVSameSize set k o bs)))
  | "balanced", k :: bs :: m0 :: n :: _seed :: labels => do
    require (labels.length = n && bs > 0 && k > 0)
    let set ← mk m0 labels
    let o ← needObs
    let (f, first, second) ← createCVSameSizeBalanced set k o bs
    pure (s!"obs={showNats o} rec={showNats first}/{showNats second} " ++ (← showFolds f))
  | "batch", k :: _bs :: m0 :: n :: _seed :: labels => do
    require (labels.length = n && k > 0)
    let set ← mk m0 labels
    let o ← needObs
    pure (s!"obs={showNats o} " ++ (← showFolds (← createCVBatch set k o)))
  | _, _ => throw .undefined

def step (ishape : Shape) (line : String) : String :=
  let parts := line.trimAscii.toString.splitOn "!"
  let toks := ((parts.headD "").splitOn " ").filter (· ≠ "")
  let obs : Option (List Nat) := match parts with
    | [_, o] => ((o.splitOn " ").filter (· ≠ "")).mapM String.toNat?
    | _ => none
  match toks with
  | [] => ""
  | op :: args =>
    match args.mapM String.toNat? with
    | none => "bad-op"
    | some a =>
      match run ishape op a obs with
      | .ok s => "ok " ++ s
      | .error .exception => "exception"
      | .error .undefined => "undefined"

partial def loop (ishape : Shape) (h : IO.FS.Stream) (out : IO.FS.Stream) : IO Unit := do
  let line ← h.getLine
  if line.isEmpty then return ()
  out.putStrLn (step ishape line)
  out.flush
  loop ishape h out

def main (args : List String) : IO Unit := do
  loop (args.filterMap String.toNat?) (← IO.getStdin) (← IO.getStdout)
