/-
Line-protocol driver for the cross-validation model (Model/CV.lean), same protocol as harness/c12.cpp.

Constructor lines are self-contained: they build a labelled dataset with ids 0..n-1 and the given labels
(createLabeledDataFromRange with maximum batch size m0) and apply one fold-construction function
(maximum batch size bs; 0 = unlimited).  They set the state (set, cur folds; the former cur becomes prev).

  indexed  k bs m0 n  l_1..l_n  idx_1..idx_n
  fully    k bs m0 n  l_1..l_n  order_1..order_n  part_1..part_n
  iid      k bs m0 n seed l_1..l_n        ! idx_1..idx_n        (observed draw)
  samesize k bs m0 n seed l_1..l_n        ! perm_1..perm_n      (observed shuffle)
  balanced k bs m0 n seed l_1..l_n        ! seq_1..seq_n        (observed dealing order = RecreationIndices.first)
  batch    k bs m0 n seed l_1..l_n        ! perm over the batches (observed)   (bs unused)

Follow-up lines work on the state (a history of one CVFolds object and the dataset variable it was built from):

  show                         folds.size(), dataset(), validationFoldIndices / trainingFoldIndices / validation / training again
  prev                         the same for the folds object that was current before the last construction (must be unchanged)
  copy                         cur := copy of cur
  starts s_1..s_m              cur := CVFolds(cur.dataset(), foldStart)
  sets m len_1 i.. len_m i..   cur := CVFolds(cur.dataset(), explicit index sets)  (any order, any content below the batch count)
  wsets / wstarts              the same two constructors on the weighted dataset (cur.dataset(), weights); state unchanged
  again fn k bs seed a b       apply construction function number fn to the dataset variable (which the previous call reorganised)
  nest w i fn k bs seed a b    set := cur.training(i) (w = 0) or cur.validation(i) (w = 1), made independent; then as `again`
  data m0 n l_1..l_n           set := createLabeledDataFromRange(ids 0..n-1, labels, m0)   (no folds built)
  repart s_1..s_m              set.repartition(sizes)                    } the incoming batch layout of the next
  splitat e w                  tail := splitAtElement(set, e)            } `again` is arbitrary
  splice b w                   tail := set.splice(b)      w: 0 keep head, 1 keep tail, 2 set.append(tail), 3 tail.append(set)
      fn: 0 indexed (idx_j = (a*j+b) mod k)   1 fully (order_j = (j+a) mod n, part_j = (a*j+b) mod k)
          2 iid  3 samesize  4 balanced  5 batch     (2..5 need the observation)

usage: drv_c12 cls|reg [input shape dims…]      (reg: regression labels — `balanced` goes through
       detail::createCVSameSizeBalanced with a membership vector; label shape [2])
-/
import SharkVerif.Model.CV
open SharkVerif.Dataset SharkVerif.CV

def showNats (l : List Nat) : String := "[" ++ " ".intercalate (l.map toString) ++ "]"
def showEl : Nat × Nat → String | (i, l) => s!"{i}:{l}"
def showDS (d : LabeledData Nat Nat) : String :=
  s!"\{ish={showNats d.inputs.shape} lsh={showNats d.labels.shape} part={showNats d.inputs.partitioning} " ++
  s!"lpart={showNats d.labels.partitioning} el=[{" ".intercalate (d.flat.map showEl)}]}"

def showFolds (f : CVFolds Nat Nat) : R String := do
  let parts ← (List.range f.size).mapM fun i => do
    let v ← f.validationFoldIndices i
    let t ← f.trainingFoldIndices i
    let vd ← f.validation i
    let td ← f.training i
    pure s!"F{i}\{v={showNats v} t={showNats t} val={showDS vd} train={showDS td}}"
  pure (s!"DS{showDS f.dataset} " ++ " ".intercalate (s!"size={f.size}" :: parts))

structure St where
  set : Option (LabeledData Nat Nat) := none
  cur : Option (CVFolds Nat Nat) := none
  prev : Option (CVFolds Nat Nat) := none

structure Cfg where
  reg : Bool
  ishape : Shape

def needObs (obs : Option (List Nat)) : R (List Nat) := match obs with
  | some o => pure o
  | none => throw .undefined

/-- `balanced` for both label kinds -/
def balancedAny (cfg : Cfg) (set : LabeledData Nat Nat) (k : Nat) (o : List Nat) (bs : Nat) :
    R (CVFolds Nat Nat × List Nat × List Nat) :=
  if cfg.reg then do
    let numClasses ← numberOfClasses set.labels
    let labs ← ofOpt ((View.ofDataset set).elements.mapM id)
    createCVSameSizeBalancedMembers set k (classMembers (labs.map (·.2)) numClasses) o bs
  else createCVSameSizeBalanced set k o bs

/-- construction function number `fn` on `set`; returns the text before the folds and the folds -/
def construct (cfg : Cfg) (set : LabeledData Nat Nat) (fn k bs a b : Nat) (obs : Option (List Nat)) :
    R (String × CVFolds Nat Nat) := do
  let n := set.numberOfElements
  require (n > 0 && k > 0)
  match fn with
  | 0 => do
    let f ← createCVIndexed set k ((List.range n).map fun j => (a * j + b) % k) bs
    pure ("", f)
  | 1 => do
    let f ← createCVFullyIndexed set k ((List.range n).map fun j => (j + a) % n) ((List.range n).map fun j => (a * j + b) % k) bs
    pure ("", f)
  | 2 => do
    let o ← needObs obs
    pure (s!"obs={showNats o} ", ← createCVIID set k o bs)
  | 3 => do
    let o ← needObs obs
    pure (s!"obs={showNats o} ", ← createCVSameSize set k o bs)
  | 4 => do
    let o ← needObs obs
    let (f, first, second) ← balancedAny cfg set k o bs
    pure (s!"obs={showNats o} rec={showNats first}/{showNats second} ", f)
  | 5 => do
    let o ← needObs obs
    pure (s!"obs={showNats o} ", ← createCVBatch set k o)
  | _ => throw .undefined

/-- `sets m len_1 i.. len_m i..` -/
def parseSets : Nat → List Nat → Option (List (List Nat))
  | 0, [] => some []
  | 0, _ :: _ => none
  | _ + 1, [] => none
  | m + 1, len :: rest =>
    if rest.length < len then none
    else (parseSets m (rest.drop len)).map (rest.take len :: ·)

def run (cfg : Cfg) (st : St) (op : String) (a : List Nat) (obs : Option (List Nat)) : R (String × St) := do
  let mk (m0 : Nat) (labels : List Nat) : R (LabeledData Nat Nat) := do
    require (labels.length > 0)
    LabeledData.createFromRange (List.range labels.length) labels m0 cfg.ishape (if cfg.reg then [2] else [])
  let fresh (pre : String) (f : CVFolds Nat Nat) (set : Option (LabeledData Nat Nat)) : R (String × St) := do
    pure (pre ++ (← showFolds f), { set := set, cur := some f, prev := st.cur })
  let cur : R (CVFolds Nat Nat) := match st.cur with
    | some f => pure f
    | none => throw .undefined
  match op, a with
  | "indexed", k :: bs :: m0 :: n :: rest => do
    require (rest.length = 2 * n)
    let set ← mk m0 (rest.take n)
    let f ← createCVIndexed set k (rest.drop n) bs
    fresh "" f (some f.dataset)
  | "fully", k :: bs :: m0 :: n :: rest => do
    require (rest.length = 3 * n)
    let set ← mk m0 (rest.take n)
    let order := (rest.drop n).take n
    require (order.all (· < n))
    let f ← createCVFullyIndexed set k order (rest.drop (2 * n)) bs
    fresh "" f (some f.dataset)
  | "iid", k :: bs :: m0 :: n :: _seed :: labels => do
    require (labels.length = n && k > 0)
    let (pre, f) ← construct cfg (← mk m0 labels) 2 k bs 0 0 obs
    fresh pre f (some f.dataset)
  | "samesize", k :: bs :: m0 :: n :: _seed :: labels => do
    require (labels.length = n && k > 0)
    let (pre, f) ← construct cfg (← mk m0 labels) 3 k bs 0 0 obs
    fresh pre f (some f.dataset)
  | "balanced", k :: bs :: m0 :: n :: _seed :: labels => do
    require (labels.length = n && k > 0)
    let (pre, f) ← construct cfg (← mk m0 labels) 4 k bs 0 0 obs
    fresh pre f (some f.dataset)
  | "batch", k :: _bs :: m0 :: n :: _seed :: labels => do
    require (labels.length = n && k > 0)
    let set ← mk m0 labels
    let (pre, f) ← construct cfg set 5 k 0 0 0 obs
    fresh pre f (some set)
  | "new", [] => pure ("", {})
  | "wprobe", [] => pure ("", st)
  | "debug", [] => pure ("", st)
  -- incoming batch layout of the dataset variable
  | "data", m0 :: n :: labels => do
    require (labels.length = n)
    let set ← mk m0 labels
    pure (s!"DS{showDS set}", { st with set := some set })
  | "repart", sizes => do
    let set ← ofOpt st.set
    require (set.numberOfElements > 0 && sizes.length > 0)
    let set ← set.repartitionByLoop sizes
    pure (s!"DS{showDS set}", { st with set := some set })
  | "splitat", [e, w] => do
    let set ← ofOpt st.set
    require (0 < e && e < set.numberOfElements && w ≤ 3 && set.inputs.nonEmptyBatches)
    let (hd, tl) ← set.splitAtElement e
    let set := if w = 0 then hd else if w = 1 then tl else if w = 2 then hd.append tl else tl.append hd
    pure (s!"DS{showDS set}", { st with set := some set })
  | "splice", [b, w] => do
    let set ← ofOpt st.set
    require (0 < b && b < set.numberOfBatches && w ≤ 3 && set.numberOfElements > 0 && set.inputs.nonEmptyBatches)
    let (hd, tl) ← set.splice b
    let set := if w = 0 then hd else if w = 1 then tl else if w = 2 then hd.append tl else tl.append hd
    pure (s!"DS{showDS set}", { st with set := some set })
  | "show", [] => do pure (← showFolds (← cur), st)
  | "prev", [] => match st.prev with
    | some f => do pure (← showFolds f, st)
    | none => throw .undefined
  | "copy", [] => do
    let f ← cur
    pure (← showFolds f, { st with cur := some f })
  | "starts", starts => do
    let f ← cur
    require (starts.length > 0)
    let g ← CVFolds.ofStarts f.dataset starts
    fresh "" g st.set
  | "wstarts", starts => do
    let f ← cur
    require (starts.length > 0)
    pure (← showFolds (← CVFolds.ofStarts f.dataset starts), st)
  | "sets", m :: rest => do
    let f ← cur
    let sets ← ofOpt (parseSets m rest)
    require (sets.all fun s => s.all (· < f.dataset.numberOfBatches))
    fresh "" (CVFolds.ofSets f.dataset sets) st.set
  | "wsets", m :: rest => do
    let f ← cur
    let sets ← ofOpt (parseSets m rest)
    require (sets.all fun s => s.all (· < f.dataset.numberOfBatches))
    pure (← showFolds (CVFolds.ofSets f.dataset sets), st)
  | "again", [fn, k, bs, _seed, x, y] => do
    let set ← match st.set with
      | some s => pure s
      | none => throw .undefined
    let (pre, f) ← construct cfg set fn k bs x y obs
    fresh pre f (some (if fn = 5 then set else f.dataset))
  | "nest", [w, i, fn, k, bs, _seed, x, y] => do
    let c ← cur
    require (i < c.size)
    let set ← if w = 0 then c.training i else c.validation i
    -- a part with a batch listed twice holds elements twice; the harness oracle identifies elements by id and skips such parts
    let ids := set.flat.map (·.1)
    require (ids.eraseDups.length == ids.length)
    let (pre, f) ← construct cfg set fn k bs x y obs
    fresh pre f (some (if fn = 5 then set else f.dataset))
  | _, _ => throw .undefined

def step (cfg : Cfg) (st : St) (line : String) : String × St :=
  let parts := line.trimAscii.toString.splitOn "!"
  let toks := ((parts.headD "").splitOn " ").filter (· ≠ "")
  let obs : Option (List Nat) := match parts with
    | [_, o] => ((o.splitOn " ").filter (· ≠ "")).mapM String.toNat?
    | _ => none
  match toks with
  | [] => ("", st)
  | op :: args =>
    match args.mapM String.toNat? with
    | none => ("bad-op", st)
    | some a =>
      match run cfg st op a obs with
      | .ok (s, st') => ((if s.isEmpty then "ok" else "ok " ++ s), st')
      | .error .exception => ("exception", st)
      | .error .undefined => ("undefined", st)

partial def loop (cfg : Cfg) (st : St) (h : IO.FS.Stream) (out : IO.FS.Stream) : IO Unit := do
  let line ← h.getLine
  if line.isEmpty then return ()
  let (s, st') := step cfg st line
  out.putStrLn s
  out.flush
  loop cfg st' h out

def main (args : List String) : IO Unit := do
  let cfg : Cfg := ⟨args.head? == some "reg", args.filterMap String.toNat?⟩
  loop cfg {} (← IO.getStdin) (← IO.getStdout)
