/-
Driver part for the linear multi-class solvers (`Model/McLinearMc.lean`, QpMcLinear.h); dispatched
from Driver/C16.lean.  Same line protocol as harness/c16l.cpp:

  mldata n d k <coords+8 (n*d)> <labels (n)>
  mlnew  F Cnum Cshift epsnum epsshift          F in WW LLW ATS MMR RS CS ATM ADM
  mlstep i  |  mlsweep i1 i2 ...                → A=[..] W=[..] gain=<bits> kkt=<bits> obj=<bits> #rat=ok|diff

Both the Float and the Rat instance are run; ` #rat=ok` iff they agree exactly on alpha and w.
-/
import SharkVerif.Model.McLinearMc
open SharkVerif.Mc

namespace C16L

def fbits (x : Float) : String := toString x.toBits.toNat
def qstr (x : Rat) : String := s!"{x.num}/{x.den}"

/-- exact value of a finite double -/
def floatToRat (f : Float) : Option Rat :=
  let b : Nat := f.toBits.toNat
  let sign : Int := if b / 2^63 = 1 then -1 else 1
  let e : Nat := (b / 2^52) % 2048
  let m : Nat := b % 2^52
  if e = 2047 then none
  else if e = 0 then some (((sign * (m : Int) : Int) : Rat) * (1 / (2 : Rat)^1074))
  else
    let mant : Int := sign * ((2^52 + m : Nat) : Int)
    if e ≥ 1075 then some ((mant : Rat) * (2 : Rat)^(e - 1075)) else some ((mant : Rat) / (2 : Rat)^(1075 - e))

class Scal (α : Type) where
  ofIntShift : Int → Nat → α      -- num / 2^shift
  render : α → String

instance : Scal Float := ⟨fun n k => Float.ofInt n / Float.ofNat (2^k), fbits⟩
instance : Scal Rat := ⟨fun n k => (n : Rat) / ((2^k : Nat) : Rat), qstr⟩

def arrFn {β : Type} (a : Array β) (d : β) (i : Nat) : β := a.getD i d
@[noinline] def mkArr {β : Type} (n : Nat) (f : Nat → β) : Array β := Array.ofFn (n := n) fun i => f i.val

structure DataSet where
  n : Nat := 0
  d : Nat := 0
  k : Nat := 0
  xs : Array Int := #[]
  ys : Array Nat := #[]

structure Pair where
  form : McForm
  df : MlData Float
  dq : MlData Rat
  sf : MlState Float
  sq : MlState Rat

structure St where
  ds : DataSet := {}
  p : Option Pair := none

section
variable {α : Type} [Add α] [Sub α] [Mul α] [Div α] [Neg α] [NatCast α] [OfScientific α]
  [LT α] [LE α] [DecidableLT α] [DecidableLE α] [BEq α] [Scal α]

def mkData (ds : DataSet) (C eps : α) : MlData α :=
  let ax := mkArr (ds.n * ds.d) fun t => (Scal.ofIntShift (ds.xs.getD t 0) 0 : α)
  let ay := ds.ys
  { n := ds.n, d := ds.d, classes := ds.k,
    x := fun i k => arrFn ax (0.0 : α) (i * ds.d + k),
    y := arrFn ay 0, C := C, eps := eps }

/-- re-tabulate the state (identity on the valid index ranges; keeps evaluation cheap) -/
def norm (n d K : Nat) (s : MlState α) : MlState α :=
  let aa := mkArr (n * (K + 1)) fun t => s.alpha (t / (K + 1)) (t % (K + 1))
  let aw := mkArr (K * d) fun t => s.w (t / d) (t % d)
  { alpha := fun i p => if p ≤ K then arrFn aa (0.0 : α) (i * (K + 1) + p) else (0.0 : α),
    w := fun c k => if k < d then arrFn aw (0.0 : α) (c * d + k) else (0.0 : α) }

def dump (n d K : Nat) (s : MlState α) : String :=
  let a := ",".intercalate ((List.range (n * (K + 1))).map fun t => Scal.render (s.alpha (t / (K + 1)) (t % (K + 1))))
  let w := ",".intercalate ((List.range (K * d)).map fun t => Scal.render (s.w (t / d) (t % d)))
  s!"A=[{a}] W=[{w}]"

/-- run a schedule, normalising after every step; returns state, last gain, last kkt -/
def run (F : McForm) (D : MlData α) (s : MlState α) (sched : List Nat) : MlState α × α × α :=
  sched.foldl (fun (acc : MlState α × α × α) i =>
    let r := mlStep F D acc.1 i
    (norm D.n D.d D.classes r.1, r.2.1, r.2.2)) (s, (0.0 : α), (0.0 : α))
end

def same (n d K : Nat) (f : MlState Float) (q : MlState Rat) : Bool :=
  (List.range (n * (K + 1))).all (fun t => floatToRat (f.alpha (t / (K + 1)) (t % (K + 1))) == some (q.alpha (t / (K + 1)) (t % (K + 1)))) &&
  (List.range (K * d)).all (fun t => floatToRat (f.w (t / d) (t % d)) == some (q.w (t / d) (t % d)))

def parseForm : String → Option McForm
  | "WW" => some .WW | "LLW" => some .LLW | "ATS" => some .ATS | "MMR" => some .MMR | "RS" => some .RS
  | "CS" => some .CS | "ATM" => some .ATM | "ADM" => some .ADM | _ => none

def parseInts (l : List String) : Option (List Int) := l.mapM String.toInt?

def ratTag (b : Bool) : String := if b then " #rat=ok" else " #rat=diff"

/-- `none`: not an op of this module -/
def step (st : St) (toks : List String) : Option (St × String) :=
  match toks with
  | "mldata" :: rest =>
    match rest.mapM String.toNat? with
    | some (n :: d :: k :: vals) =>
      if vals.length != n * d + n || n = 0 || d = 0 || k < 2 then some (st, "bad-op") else
      let xs := ((vals.take (n * d)).map fun (v : Nat) => (v : Int) - 8).toArray
      let ys := (vals.drop (n * d)).toArray
      if ys.any (· ≥ k) then some (st, "bad-op") else
      some ({ ds := { n := n, d := d, k := k, xs := xs, ys := ys }, p := none }, s!"mldata n={n} d={d} k={k}")
    | _ => some (st, "bad-op")
  | "mlnew" :: f :: rest =>
    match parseForm f, parseInts rest with
    | some F, some [cn, cs, en, es] =>
      if st.ds.n = 0 then some (st, "bad-op") else
      let df : MlData Float := mkData st.ds (Scal.ofIntShift cn cs.toNat) (Scal.ofIntShift en es.toNat)
      let dq : MlData Rat := mkData st.ds (Scal.ofIntShift cn cs.toNat) (Scal.ofIntShift en es.toNat)
      let sf := norm df.n df.d df.classes (mlInit : MlState Float)
      let sq := norm dq.n dq.d dq.classes (mlInit : MlState Rat)
      some ({ st with p := some { form := F, df := df, dq := dq, sf := sf, sq := sq } },
        dump df.n df.d df.classes sf ++ s!" gain={fbits 0.0} kkt={fbits 0.0} obj={fbits (mlObjective df sf)}" ++
          ratTag (same df.n df.d df.classes sf sq))
    | _, _ => some (st, "bad-op")
  | op :: rest =>
    if op != "mlstep" && op != "mlsweep" then none else
    match parseInts rest, st.p with
    | some sched, some p =>
      let sc := sched.map Int.toNat
      if sc.isEmpty || sc.any (fun i => i ≥ p.df.n) || sched.any (· < 0) || (op == "mlstep" && sc.length != 1) then some (st, "bad-op") else
      let rf := run p.form p.df p.sf sc
      let rq := run p.form p.dq p.sq sc
      some ({ st with p := some { p with sf := rf.1, sq := rq.1 } },
        dump p.df.n p.df.d p.df.classes rf.1 ++ s!" gain={fbits rf.2.1} kkt={fbits rf.2.2} obj={fbits (mlObjective p.df rf.1)}" ++
          ratTag (same p.df.n p.df.d p.df.classes rf.1 rq.1))
    | _, _ => some (st, "bad-op")
  | [] => none

end C16L
