/-
Line-protocol driver for the C19 importer model (`Model/Import.lean`,
`Model/ImportLex.lean`).  Same protocol as harness/c19.cpp:

  svm|svmf <d|s> <c|r> <f64|f32> <dims> <batchSize> <X|S> <hex bytes or ->      (stream / file overloads)
  csv <u|c|r> <f64|f32> <F|L> <nout> <sep> <comment> <maxB> <X|S> <hex>           (csvStringToData)
  csvf <u|c|r> <f64|f32> <F|L> <nout> <sep> <comment> <maxB> <titleLines> <X|S> <hex>  (importCSV from a file)
  csv1 <int|uint|f64|f32> <comment> <maxB> <X|S> <hex>                            (scalar readers)
  xcsv <u|c|r> <f64|f32> <F|L> <nout> <sep> <sci> <width> <maxB> <n> <dim> <values…>   (exportCSV, then importCSV)
  xsvm <d|s> <c|r> <f64|f32> <dims> <bs> <oneMinusOne> <sort> <append> <n> <dim> <elements…>  (exportSparseData, then importSparseData)

prints the predicted observation
  ok shape=.. lshape=.. batches=[..] labels=[..] rows=[..] | shark-exception |
  std-exception bad_alloc | memory-error ... | safety-only
The prediction is the *repaired* logic `Svm.importRepaired`; `Props/C19.lean`
proves it equal to the current logic wherever the current logic is memory-safe
and consistent (`repaired_eq_current`).
-/
import SharkVerif.Model.Import
import SharkVerif.Model.ImportLex
import SharkVerif.Model.ImportCsv
import SharkVerif.Model.ExportFmt
open SharkVerif.Import

def hexVal (c : Char) : Nat :=
  if '0' ≤ c && c ≤ '9' then c.toNat - 48
  else if 'a' ≤ c && c ≤ 'f' then c.toNat - 87
  else if 'A' ≤ c && c ≤ 'F' then c.toNat - 55 else 0

def unhex : List Char → List Char
  | a :: b :: t => Char.ofNat (hexVal a * 16 + hexVal b) :: unhex t
  | _ => []

def sepBy (sep : String) (l : List String) : String := sep.intercalate l

def showRow : Row Val → String
  | .dense xs =>   -- dimension, then the non-zero cells
    let cells := (List.zip (List.range xs.length) xs).filter fun p => p.2.render != "0^0"
    "[" ++ toString xs.length ++ ":" ++ sepBy "," (cells.map fun p => toString p.1 ++ "=" ++ p.2.render) ++ "]"
  | .sparse d xs => "{" ++ toString d ++ ":" ++ sepBy "," (xs.map fun p => toString p.1 ++ "=" ++ p.2.render) ++ "}"

def showLabels : Labels Val → String
  | .cls ls => "[" ++ sepBy "," (ls.map toString) ++ "]"
  | .reg ls => "[" ++ sepBy "," (ls.map fun l => "[" ++ sepBy "," (l.map Val.render) ++ "]") ++ "]"
  | .none => "-"

def mapRow (f : Val → Val) : Row Val → Row Val
  | .dense xs => .dense (xs.map f)
  | .sparse d xs => .sparse d (xs.map fun p => (p.1, f p.2))

def mapLabels (f : Val → Val) : Labels Val → Labels Val
  | .reg ls => .reg (ls.map (·.map f))
  | l => l

def showShape : Option Nat → String
  | some n => s!"({n})"
  | none => "()"

def showOutcome (f32 : Bool) : Outcome Val → String
  | .ok d =>
    let cast := if f32 then Val.toFloat32 else id
    let lsh := match d.labels with
      | .none => "-"
      | _ => showShape d.lshape
    s!"ok shape={showShape d.shape} lshape={lsh} batches=[{sepBy "," (d.batches.map toString)}] labels={showLabels (mapLabels cast d.labels)} rows=[{sepBy "," (d.rows.map (showRow ∘ mapRow cast))}]"
  | .error => "shark-exception"
  | .allocFail => "std-exception bad_alloc"
  | .oobWrite i n => s!"memory-error write index {i} size {n}"
  | .ubEmptyMax => "memory-error max_element of empty batch"

def allocBytes : Nat := 1048576

/-- the LibSVM record through the PEG interpreter (`svmLineG`, skipper `space`) -/
def svmLinePeg (line : List Char) : Option (Val × List (Nat × Val)) :=
  match SharkVerif.Peg.phraseParse SharkVerif.Peg.svmLineG .space line with
  | .ok [] evs =>
    match evs with
    | .val lab :: rest =>
      some (lab, (Csv.splitMarks rest [] []).map fun r => ((Csv.labelOf r).toNat, (Csv.valsOf r).headD Val.nan))
    | _ => none
  | _ => none

def svmRecordsPeg (bytes : List Char) : Option (List (Val × List (Nat × Val))) :=
  (splitLines bytes [] []).mapM svmLinePeg

/-- round-trip datasets: the formula shared with harness/c19.cpp (`rtCell`, `rtLabel`) -/
def rtCell (seed e j : Nat) : Val :=
  let k : Int := ((seed * 7 + e * 3 + j * 5) % 11 : Nat) - 5
  Val.mk (decide (k < 0)) k.natAbs (-2)
def rtLabel (seed e : Nat) : Nat := e % (2 + seed % 2)

/-- compare what the model importer returns with the exported dataset (-0 = 0 as in C++) -/
def normRow : Row Val → Row Val
  | .dense xs => .dense (xs.map fun v => match v with | .fin _ 0 _ => Val.zero | v => v)
  | r => r
def normLabels : Labels Val → Labels Val
  | .reg ls => .reg (ls.map (·.map fun v => match v with | .fin _ 0 _ => Val.zero | v => v))
  | l => l

def rtVerdict (o : Outcome Val) (rows : List (Row Val)) (labels : Labels Val) : String :=
  match o with
  | .ok d =>
    let same := d.rows.map normRow == rows.map normRow && decide (normLabels d.labels = normLabels labels)
    (if same then "rt same" else "rt differs") ++ s!" elements={d.rows.length} batches=[{sepBy "," (d.batches.map toString)}]"
  | .error => "rt shark-exception"
  | o => "rt " ++ showOutcome false o

def hexDigit (n : Nat) : Char := if n < 10 then Char.ofNat (48 + n) else Char.ofNat (87 + n)
def hexOf (s : List Char) : String :=
  if s.isEmpty then "-" else String.ofList (s.flatMap fun c => [hexDigit (c.toNat / 16 % 16), hexDigit (c.toNat % 16)])

/-- a value token of the export ops: `[-]m^e` (= ± m·2^e), `nan`, `inf`, `-inf` -/
def parseVal (t : String) : Val :=
  if t == "nan" then .nan else if t == "inf" then .inf false else if t == "-inf" then .inf true
  else
    let cs := t.toList
    let neg := cs.head? == some '-'
    let body : String := String.ofList (if neg then cs.drop 1 else cs)
    match body.splitOn "^" with
    | [m, e] => (match m.toNat?, e.toInt? with
      | some m, some e => Val.mk neg m e
      | _, _ => .nan)
    | _ => .nan

def chunks {α} (k : Nat) (l : List α) : List (List α) :=
  if k = 0 then [] else
  let rec go : Nat → List α → List (List α)
    | 0, _ => []
    | f+1, l => if l.isEmpty then [] else l.take k :: go f (l.drop k)
  go (l.length + 1) l

/-- elements of an `xsvm` op: dense `dim` values, sparse `k (index value)*`; then the label token -/
def parseElems (sparse : Bool) (dim : Nat) : Nat → List String → Option (List (List (Nat × Val) × String))
  | 0, [] => some []
  | 0, _ => none
  | n+1, toks =>
    if sparse then
      match toks with
      | k :: rest =>
        let k := k.toNat?.getD 0
        let body := rest.take (2 * k)
        match rest.drop (2 * k) with
        | lab :: rest' =>
          if body.length != 2 * k then none else
          let ents := (chunks 2 body).map fun p => ((p.headD "0").toNat?.getD 0, parseVal (p.getD 1 "nan"))
          (parseElems sparse dim n rest').map (((ents, lab)) :: ·)
        | [] => none
      | [] => none
    else
      let body := toks.take dim
      match toks.drop dim with
      | lab :: rest' =>
        if body.length != dim then none else
        (parseElems sparse dim n rest').map ((Export.denseEntries (body.map parseVal), lab) :: ·)
      | [] => none

def svmOp (fmt lab ty dims bs mode hex : String) : String :=
  if mode == "S" then "safety-only" else
  match dims.toNat?, bs.toNat? with
  | some dims, some bs =>
    let bytes := if hex == "-" then [] else unhex hex.toList
    let f32 := ty == "f32"
    let cfg : Svm.Cfg := { sparse := fmt == "s", cls := lab == "c", dims := dims, bs := bs,
                           allocLimit := allocBytes / (if f32 then 4 else 8) }
    -- the record reader twice: hand-written lexer and the PEG model of the same grammar must agree
    if svmRecords bytes != svmRecordsPeg bytes then "model-inconsistency svmLine vs svmLineG" else
    showOutcome f32 (Svm.importBytes cfg bytes)
  | _, _ => "bad-op"

def csvOp (kind ty lp nout sep comment maxB title mode hex : String) : String :=
  if mode == "S" then "safety-only" else
  match nout.toNat?, sep.toNat?, comment.toNat?, maxB.toNat?, title.toNat? with
  | some nout, some sep, some comment, some maxB, some title =>
    let bytes := if hex == "-" then [] else unhex hex.toList
    let bytes := if kind == "u" then Csv.dropTitleLines title bytes else bytes
    let f32 := ty == "f32"
    let sep := Char.ofNat sep
    let comment := Char.ofNat comment
    if kind == "u" then showOutcome f32 (Csv.importRowsBytes bytes sep comment maxB)
    else if kind == "r" then showOutcome f32 (Csv.importRegrBytes bytes (lp == "F") nout sep comment maxB)
    else showOutcome f32 (Csv.importClassBytes bytes (lp == "F") sep comment maxB)
  | _, _, _, _, _ => "bad-op"

def step (line : String) : String :=
  let toks0 := (line.splitOn " ").filter (· ≠ "")
  -- `reuse <op>`: the harness imports into a dataset object that already holds data; the importers assign
  -- a fresh dataset, so the prediction is that of `<op>`
  let toks := match toks0 with
    | "reuse" :: t => t
    | t => t
  match toks with
  | ["svm", fmt, lab, ty, dims, bs, mode, hex] => svmOp fmt lab ty dims bs mode hex
  | ["svmf", fmt, lab, ty, dims, bs, mode, hex] => svmOp fmt lab ty dims bs mode hex
  | ["csv", kind, ty, lp, nout, sep, comment, maxB, mode, hex] => csvOp kind ty lp nout sep comment maxB "0" mode hex
  | ["csvf", kind, ty, lp, nout, sep, comment, maxB, title, mode, hex] => csvOp kind ty lp nout sep comment maxB title mode hex
  | ["csv1", ty, comment, maxB, mode, hex] =>
    if mode == "S" then "safety-only" else
    match comment.toNat?, maxB.toNat? with
    | some comment, some maxB =>
      let bytes := if hex == "-" then [] else unhex hex.toList
      let g := if ty == "int" then SharkVerif.Peg.valuesInt else if ty == "uint" then SharkVerif.Peg.valuesUInt else SharkVerif.Peg.valuesReal
      match Csv.readValues g bytes (Char.ofNat comment) with
      | none => "shark-exception"
      | some evs =>
        let vals := evs.filterMap fun e => match e with
          | .val v => some (if ty == "f32" then Val.toFloat32 v else v)
          | .int i => some (Val.ofInt i)
          | .mark => none
        match Csv.importScalars vals maxB with
        | .ok d => s!"ok batches=[{sepBy "," (d.batches.map toString)}] values=[{sepBy "," (vals.map Val.render)}]"
        | o => showOutcome false o
    | _, _ => "bad-op"
  | ["rt", "csv", kind, lp, nout, sep, maxB, dim, seed, n] =>
    match nout.toNat?, sep.toNat?, maxB.toNat?, dim.toNat?, seed.toNat?, n.toNat? with
    | some nout, some sep, some maxB, some dim, some seed, some n =>
      let sep := Char.ofNat sep
      let first := lp == "F"
      let ins := (List.range n).map fun e => (List.range dim).map fun j => rtCell seed e j
      if kind == "c" then
        let pts := (List.zip (List.range n) ins).map fun q => (rtLabel seed q.1, q.2)
        match Export.csvClass pts first sep true 0 with
        | none => "rt shark-exception"
        | some text =>
          rtVerdict (Csv.importClassBytes text first sep '#' maxB) (pts.map fun p => Row.dense p.2) (.cls (pts.map (·.1)))
      else
        let outs := (List.range n).map fun e => (List.range nout).map fun j => rtCell (seed + 1) e j
        match Export.csvRegr (List.zip ins outs) first sep true 0 with
        | none => "rt shark-exception"
        | some text => rtVerdict (Csv.importRegrBytes text first nout sep '#' maxB) (ins.map Row.dense) (.reg outs)
    | _, _, _, _, _, _ => "bad-op"
  | ["rt", "svm", _fmt, lab, bs, dim, seed, n] =>
    match bs.toNat?, dim.toNat?, seed.toNat?, n.toNat? with
    | some bs, some dim, some seed, some n =>
      let ins := (List.range n).map fun e => (List.range dim).map fun j => rtCell seed e j
      let cfg : Svm.Cfg := { sparse := false, cls := lab == "c", dims := dim, bs := bs, allocLimit := allocBytes / 8 }
      let labs := (List.range n).map (rtLabel seed)
      let regs := (List.range n).map fun e => rtCell (seed + 1) e 0
      let ents := ins.map Export.denseEntries
      let text := if lab == "c" then Export.svmClass (List.zip labs ents) true false else Export.svmRegr (List.zip regs ents)
      rtVerdict (Svm.importBytes cfg text) (ins.map Row.dense)
        (if lab == "c" then .cls labs else .reg (regs.map fun v => [v]))
    | _, _, _, _ => "bad-op"
  | "xcsv" :: kind :: ty :: lp :: nout :: sep :: sci :: width :: maxB :: n :: dim :: vals =>
    match nout.toNat?, sep.toNat?, width.toNat?, maxB.toNat?, n.toNat?, dim.toNat? with
    | some nout, some sep, some width, some maxB, some n, some dim =>
      let sep := Char.ofNat sep
      let first := lp == "F"
      let sci := sci == "1"
      let f32 := ty == "f32"
      let per := dim + (if kind == "c" then 1 else if kind == "r" then nout else 0)
      if vals.length != n * per then "bad-op" else
      let elems := if per = 0 then List.replicate n [] else chunks per vals
      let ins := elems.map fun e => (e.take dim).map parseVal
      let text : Option (List Char) :=
        if kind == "u" then Export.csvRows ins sep sci width
        else if kind == "c" then
          Export.csvClass (elems.map fun e => (((e.drop dim).headD "0").toNat?.getD 0, (e.take dim).map parseVal)) first sep sci width
        else Export.csvRegr (elems.map fun e => ((e.take dim).map parseVal, (e.drop dim).map parseVal)) first sep sci width
      match text with
      | none => "exp=shark-exception"
      | some text =>
        let o := if kind == "u" then Csv.importRowsBytes text sep '#' maxB
          else if kind == "c" then Csv.importClassBytes text first sep '#' maxB
          else Csv.importRegrBytes text first nout sep '#' maxB
        s!"exp={hexOf text} imp={showOutcome f32 o}"
    | _, _, _, _, _, _ => "bad-op"
  | "xsvm" :: fmt :: lab :: ty :: dims :: bs :: omo :: srt :: app :: n :: dim :: vals =>
    match dims.toNat?, bs.toNat?, n.toNat?, dim.toNat? with
    | some dims, some bs, some n, some _dim =>
      let f32 := ty == "f32"
      let sparse := fmt == "s"
      match parseElems sparse _dim n vals with
      | none => "bad-op"
      | some elems =>
        let text1 :=
          if lab == "c" then Export.svmClass (elems.map fun e => (e.2.toNat?.getD 0, e.1)) (omo == "1") (srt == "1")
          else Export.svmRegr (elems.map fun e => (parseVal e.2, e.1))
        let text := if app == "1" then text1 ++ text1 else text1
        let cfg : Svm.Cfg := { sparse := sparse, cls := lab == "c", dims := dims, bs := bs,
                               allocLimit := allocBytes / (if f32 then 4 else 8) }
        s!"exp={hexOf text} imp={showOutcome f32 (Svm.importBytes cfg text)}"
    | _, _, _, _ => "bad-op"
  | [] => ""
  | _ => "bad-op"

partial def loop (h : IO.FS.Stream) (out : IO.FS.Stream) : IO Unit := do
  let line ← h.getLine
  if line.isEmpty then return ()
  let l := (line.toList.filter (fun c => c != '\n' && c != '\r'))
  out.putStrLn (step (String.ofList l))
  loop h out

def main : IO Unit := do
  loop (← IO.getStdin) (← IO.getStdout)
