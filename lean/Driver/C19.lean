/-
Line-protocol driver for the C19 importer model (`Model/Import.lean`,
`Model/ImportLex.lean`).  Same protocol as harness/c19.cpp:

  svm <d|s> <c|r> <f64|f32> <dims> <batchSize> <X|S> <hex bytes or ->

prints the predicted observation
  ok shape=.. lshape=.. batches=[..] labels=[..] rows=[..] | shark-exception |
  std-exception bad_alloc | memory-error ... | safety-only
The prediction is the *repaired* logic `Svm.importRepaired`; `Props/C19.lean`
proves it equal to the current logic wherever the current logic is memory-safe
and consistent (`repaired_eq_current`).
-/
import SharkVerif.Model.Import
import SharkVerif.Model.ImportLex
import SharkVerif.Model.ImportCsv
open SharkVerif.Import

def hexVal (c : Char) : Nat :=
  if '0' ≤ c && c ≤ '9' then c.toNat - 48
  else if 'a' ≤ c && c ≤ 'f' then c.toNat - 87
  else if 'A' ≤ c && c ≤ 'F' then c.toNat - 55 else 0

def unhex : List Char → List Char
  | a :: b :: t => Char.ofNat (hexVal a * 16 + hexVal b) :: unhex t
  | _ => []

def sepBy (sep : String) (l : List String) : String := sep.intercalate l

def showRow : Row Val → String
  | .dense xs =>   -- dimension, then the non-zero cells
    let cells := (List.zip (List.range xs.length) xs).filter fun p => p.2.render != "0^0"
    "[" ++ toString xs.length ++ ":" ++ sepBy "," (cells.map fun p => toString p.1 ++ "=" ++ p.2.render) ++ "]"
  | .sparse d xs => "{" ++ toString d ++ ":" ++ sepBy "," (xs.map fun p => toString p.1 ++ "=" ++ p.2.render) ++ "}"

def showLabels : Labels Val → String
  | .cls ls => "[" ++ sepBy "," (ls.map toString) ++ "]"
  | .reg ls => "[" ++ sepBy "," (ls.map fun l => "[" ++ sepBy "," (l.map Val.render) ++ "]") ++ "]"
  | .none => "-"

def mapRow (f : Val → Val) : Row Val → Row Val
  | .dense xs => .dense (xs.map f)
  | .sparse d xs => .sparse d (xs.map fun p => (p.1, f p.2))

def mapLabels (f : Val → Val) : Labels Val → Labels Val
  | .reg ls => .reg (ls.map (·.map f))
  | l => l

def showShape : Option Nat → String
  | some n => s!"({n})"
  | none => "()"

def showOutcome (f32 : Bool) : Outcome Val → String
  | .ok d =>
    let cast := if f32 then Val.toFloat32 else id
    let lsh := match d.labels with
      | .none => "-"
      | _ => showShape d.lshape
    s!"ok shape={showShape d.shape} lshape={lsh} batches=[{sepBy "," (d.batches.map toString)}] labels={showLabels (mapLabels cast d.labels)} rows=[{sepBy "," (d.rows.map (showRow ∘ mapRow cast))}]"
  | .error => "shark-exception"
  | .allocFail => "std-exception bad_alloc"
  | .oobWrite i n => s!"memory-error write index {i} size {n}"
  | .ubEmptyMax => "memory-error max_element of empty batch"

def allocBytes : Nat := 1048576

def step (line : String) : String :=
  let toks := (line.splitOn " ").filter (· ≠ "")
  match toks with
  | ["svm", fmt, lab, ty, dims, bs, mode, hex] =>
    if mode == "S" then "safety-only" else
    match dims.toNat?, bs.toNat? with
    | some dims, some bs =>
      let bytes := if hex == "-" then [] else unhex hex.toList
      let f32 := ty == "f32"
      let cfg : Svm.Cfg := { sparse := fmt == "s", cls := lab == "c", dims := dims, bs := bs,
                             allocLimit := allocBytes / (if f32 then 4 else 8) }
      match svmRecords bytes with
      | none => "shark-exception"
      | some recs =>
        let recs := recs.map fun r => ({ label := r.1, feats := r.2 } : Svm.Rec Val)
        showOutcome f32 (Svm.importRepaired Val.zero Val.toInt32 cfg recs)
    | _, _ => "bad-op"
  | ["csv", kind, ty, lp, nout, sep, comment, maxB, mode, hex] =>
    if mode == "S" then "safety-only" else
    match nout.toNat?, sep.toNat?, comment.toNat?, maxB.toNat? with
    | some nout, some sep, some comment, some maxB =>
      let bytes := if hex == "-" then [] else unhex hex.toList
      let f32 := ty == "f32"
      let sep := Char.ofNat sep
      let comment := Char.ofNat comment
      if kind == "u" then
        match Csv.readRows bytes sep comment with
        | none => "shark-exception"
        | some rows => showOutcome f32 (Csv.importRows rows maxB)
      else if kind == "r" then
        match Csv.readRows bytes sep comment with
        | none => "shark-exception"
        | some rows => showOutcome f32 (Csv.importRegr rows (lp == "F") nout maxB)
      else
        match (if lp == "F" then Csv.readPointsFirst bytes sep comment else Csv.readPointsLast bytes sep comment) with
        | none => "shark-exception"
        | some pts => showOutcome f32 (Csv.importClass pts maxB)
    | _, _, _, _ => "bad-op"
  | [] => ""
  | _ => "bad-op"

partial def loop (h : IO.FS.Stream) (out : IO.FS.Stream) : IO Unit := do
  let line ← h.getLine
  if line.isEmpty then return ()
  let l := (line.toList.filter (fun c => c != '\n' && c != '\r'))
  out.putStrLn (step (String.ofList l))
  loop h out

def main : IO Unit := do
  loop (← IO.getStdin) (← IO.getStdout)
