/-
Line-protocol driver for the C10 models (gradient-based optimizers); same
protocol as harness/c10.cpp.  Every run is executed twice: at `Float`
(compared bit for bit with the C++ doubles) and at `Rat` (exact; the suffix
`#rat=1` says that the exact run reports the same point and value as the Float
run — the check demands it whenever the C++ step raised no FE_INEXACT).
-/
import SharkVerif.Model.GradOpt
import SharkVerif.Model.Objectives
import SharkVerif.Model.LineSearches
import SharkVerif.Model.TrustRegion
import SharkVerif.Gen.LbfgsBox
open SharkVerif.Opt

/-! ### numbers -/

def hexVal (c : Char) : Option Nat :=
  if '0' ≤ c ∧ c ≤ '9' then some (c.toNat - '0'.toNat)
  else if 'a' ≤ c ∧ c ≤ 'f' then some (c.toNat - 'a'.toNat + 10)
  else if 'A' ≤ c ∧ c ≤ 'F' then some (c.toNat - 'A'.toNat + 10)
  else none

def parseBits (t : String) : Option UInt64 :=
  match t.toList with
  | 'x' :: ds =>
    if ds.length != 16 then none else
    ds.foldlM (fun (acc : Nat) c => (hexVal c).map fun v => acc * 16 + v) 0 |>.map (·.toUInt64)
  | _ => none

/-- (sign, odd mantissa, exponent) of a finite non-zero double -/
def decode (b : UInt64) : Option (Bool × Nat × Int) :=
  let sign := (b >>> 63) != 0
  let ex := ((b >>> 52) &&& 0x7ff).toNat
  let man := (b &&& 0xfffffffffffff).toNat
  if ex == 0x7ff then none
  else if ex == 0 && man == 0 then some (sign, 0, 0)
  else
    let (m, e) : Nat × Int := if ex == 0 then (man, -1074) else (man + 2^52, (ex : Int) - 1075)
    let rec strip (fuel : Nat) (m : Nat) (e : Int) : Nat × Int :=
      match fuel with
      | 0 => (m, e)
      | f+1 => if m % 2 == 0 && m != 0 then strip f (m / 2) (e + 1) else (m, e)
    let (m, e) := strip 64 m e
    some (sign, m, e)

def exactF (x : Float) : String :=
  if x.isNaN then "nan" else if x.isInf then (if x > 0 then "inf" else "-inf") else
  match decode x.toBits with
  | none => "nan"
  | some (_, 0, _) => "0 0"
  | some (s, m, e) => s!"{if s then "-" else ""}{m} {e}"

def ratOfBits (b : UInt64) : Rat :=
  match decode b with
  | none => 0
  | some (s, m, e) =>
    let q : Rat := if e ≥ 0 then ((m * 2 ^ e.toNat : Nat) : Rat) else (m : Rat) / ((2 ^ (-e).toNat : Nat) : Rat)
    if s then -q else q

def ratOfFloat (x : Float) : Option Rat :=
  if x.isNaN || x.isInf then none else some (ratOfBits x.toBits)

def showVecF (v : List Float) : String := "[" ++ ",".intercalate (v.map exactF) ++ "]"

/-! ### generic optimizer run -/

inductive OptSt (α : Type) where
  | none
  | sd (s : SD α)
  | adam (s : Adam α)
  | rprop (s : Rprop α)

structure Cfg (α : Type) where
  kind : String := ""
  p : List α := []

structure Run (α : Type) where
  kind : ObjKind := .quad
  n : Nat := 0
  A : Mat α := []
  b : Vec α := []
  box : Option (Vec α × Vec α) := none
  cfg : Cfg α := {}
  st : OptSt α := .none

variable {α : Type} [Scalar α]

def Run.obj (r : Run α) : Objective α := mkObjective r.kind r.A r.b r.box

def chunk (n : Nat) (l : List α) : List (List α) :=
  (List.range n).map fun i => (l.drop (i * n)).take n

def Run.init (big : α) (r : Run α) (x0 : Vec α) : Option (Run α) :=
  let o := r.obj
  let nz (a : α) : Bool := !(Scalar.beq a Scalar.zero)
  match r.cfg.kind, r.cfg.p with
  | "sd", [lr, mom] => some { r with st := .sd (SD.init o lr mom x0) }
  | "adam", [eta, b1, b2, eps] => some { r with st := .adam (Adam.init o eta b1 b2 eps x0) }
  | "rprop", [inc, dec, mx, mn, fr, bt, ov, d0] =>
    some { r with st := .rprop (Rprop.init o inc dec mx mn (nz fr) (nz bt) (nz ov) big d0 x0) }
  | _, _ => none

def Run.step (sqrt : α → α) (pow : α → Nat → α) (r : Run α) : Run α :=
  let o := r.obj
  match r.st with
  | .none => r
  | .sd s => { r with st := .sd (s.step o) }
  | .adam s => { r with st := .adam (s.step sqrt pow o) }
  | .rprop s => { r with st := .rprop (s.step o) }

/-- save/restore: the model's `read (write s)` into a fresh instance -/
def Run.saveRestore (big : α) (r : Run α) : Run α :=
  match r.st with
  | .none => r
  | .sd s => { r with st := .sd (SD.read (SD.init r.obj Scalar.zero Scalar.zero []) s.write) }
  | .adam s => { r with st := .adam (Adam.read s s.write) }
  | .rprop s =>
    let fresh := Rprop.init r.obj Scalar.zero Scalar.zero Scalar.zero Scalar.zero
      s.useFreezing s.useBacktracking s.useOldValue big Scalar.zero []
    { r with st := .rprop (Rprop.read fresh s.write) }

def Run.best (r : Run α) : Option (Best α) :=
  match r.st with
  | .none => none
  | .sd s => some s.best
  | .adam s => some s.best
  | .rprop s => some s.best

/-! ### line-search optimizers: one-step refinement check against injected harness states -/

structure XSt where
  kind : String := ""
  ls : Nat := 2
  numHist : Nat := 100
  minI : Float := 0
  maxI : Float := 1
  cur : Option (LSOpt Float) := none
  tcur : Option (TRN Float) := none

def takeN (n : Nat) (l : List Float) : List Float × List Float := (l.take n, l.drop n)

/-- parse the flat `st=` field of harness/c10.cpp -/
def parseSt (kind : String) (numHist : Nat) (t : String) : Option (LSOpt Float) := do
  match t.splitOn "," with
  | [] => none
  | d :: rest =>
    let n ← d.toNat?
    let xs ← (rest.mapM parseBits).map (·.map Float.ofBits)
    if xs.length < 5 * n + 3 then none else
    let (pt, xs) := takeN n xs
    let val := xs.headD 0; let xs := xs.drop 1
    let (g, xs) := takeN n xs
    let (dir, xs) := takeN n xs
    let (lp, xs) := takeN n xs
    let (lg, xs) := takeN n xs
    let lv := xs.headD 0; let isl := (xs.drop 1).headD 0; let xs := xs.drop 2
    let model ← match kind with
      | "bfgs" => if xs.length == n * n then some (LSModel.bfgs (chunk n xs)) else none
      | "cg" => some (LSModel.cg (xs.headD 0).toUInt64.toNat)
      | "lbfgs" =>
        let bd := xs.headD 0; let m := ((xs.drop 1).headD 0).toUInt64.toNat; let xs := xs.drop 2
        if xs.length != 2 * m * n then none else
        let S := (List.range m).map fun i => (xs.drop (i * n)).take n
        let Y := (List.range m).map fun i => (xs.drop ((m + i) * n)).take n
        some (LSModel.lbfgs numHist bd (List.zip S Y))
      | _ => none
    some { dim := n, initialStep := isl, best := ⟨pt, val⟩, derivative := g, dir := dir,
           lastDerivative := lg, lastPoint := lp, lastValue := lv, model := model }

/-- comparison of two numbers: 0 identical bits (or both zero), 1 within tolerance, 2 different -/
def cmpNum (scale a b : Float) : Nat :=
  if a.toBits == b.toBits || (a == 0 && b == 0) then 0
  else if (a - b).abs ≤ 1e-9 * (1 + scale) then 1 else 2

def cmpVec (a b : List Float) : Nat :=
  if a.length != b.length then 2 else
  let scale := (a ++ b).foldl (fun m x => if x.abs > m then x.abs else m) 0
  (List.zipWith (cmpNum scale) a b).foldl Nat.max 0

def modelNums : LSModel Float → List Float
  | .bfgs H => H.flatten
  | .cg c => [c.toFloat]
  | .lbfgs _ bd hist => bd :: (hist.flatMap fun sy => sy.1 ++ sy.2)

def verdict (fields : List (String × Nat)) : String :=
  match fields.find? (·.2 == 2) with
  | some (f, _) => s!"MISMATCH {f}"
  | none => if fields.all (·.2 == 0) then "ok bits" else
    "ok tol " ++ " ".intercalate ((fields.filter (·.2 == 1)).map (·.1))

/-- the box-constrained direction of the model from the harness' own post-line-search state: the model's
active set must reproduce the harness' `p0` bit for bit; `multBInv`/`multB` of `p0` are taken from the
real code (`bx = p0, B⁻¹p0, Bp0`), the model's own `multBInv` is compared with it as well -/
def boxDirFields (l u x g : List Float) (bdiag : Float) (hist : List (List Float × List Float))
    (bx : List Float) (dirH : List Float) : List (String × Nat) :=
  let n := x.length
  let p0h := bx.take n; let bih := (bx.drop n).take n; let bph := (bx.drop (2 * n)).take n
  let p0m := LSOpt.Box.p0 l u x g
  -- the variant of the function the checked tree contains (regenerated from its source on every run)
  let d := LSOpt.Box.directionOfV SharkVerif.Gen.LbfgsBox.variant (fun _ => bih) (fun _ => bph) l u x g
  [("box-p0", if p0m.length == n && (List.zipWith (fun a b => a.toBits == b.toBits || (a == 0 && b == 0)) p0m p0h).all id then 0 else 2),
   ("box-multBInv", cmpVec (LSOpt.multBInv bdiag hist p0m) bih),
   ("box-dir", cmpVec d dirH)]

def lsFloat (minI maxI : Float) (type : Nat) : LineSearch Float := lineSearchOf Float.sqrt minI maxI type

def xstep (o : Objective Float) (x : XSt) (h : LSOpt Float) (isInit : Bool) (bx : List Float := []) : String :=
  let boxLbfgs := o.constrained && x.kind == "lbfgs"
  if isInit then
    let kind : LSModel Float := match x.kind with
      | "bfgs" => .bfgs [] | "cg" => .cg 0 | _ => .lbfgs x.numHist 1 []
    let m := LSOpt.init o kind h.best.point
    verdict [("value", cmpNum 0 m.best.value h.best.value), ("g", cmpVec m.derivative h.derivative),
             ("dir", cmpVec m.dir h.dir), ("isl", cmpNum 0 m.initialStep h.initialStep),
             ("model", cmpVec (modelNums m.model) (modelNums h.model))]
  else
    match x.cur with
    | none => "bad-op"
    | some cur =>
      -- the part of the step before computeSearchDirection
      let after : LSOpt Float × List (String × Nat) :=
        -- all three line searches are modelled (Model/LineSearches.lean): run the model from the previous state
        let a := LSOpt.afterLineSearch (lsFloat x.minI x.maxI x.ls) o cur
        (a, [("point", cmpVec a.best.point h.best.point), ("value", cmpNum a.best.value.abs a.best.value h.best.value),
             ("g", cmpVec a.derivative h.derivative)])
      let a := after.1
      let common := after.2 ++ [("lastPoint", cmpVec a.lastPoint h.lastPoint), ("lastDerivative", cmpVec a.lastDerivative h.lastDerivative),
                                ("lastValue", cmpNum 0 a.lastValue h.lastValue), ("isl", cmpNum 0 a.initialStep h.initialStep)]
      if boxLbfgs then
        -- history update by the model, direction by the model of getBoxConstrainedDirection
        let a' := { a with best := h.best, derivative := h.derivative }
        match a'.model, h.model with
        | .lbfgs nh bd hist, .lbfgs _ bdH histH =>
          let y := Vec.sub a'.derivative a'.lastDerivative
          let st := Vec.sub a'.best.point a'.lastPoint
          let (bd', hist') := LSOpt.lbfgsUpdateHist nh bd hist y st
          let mfield := ("model", cmpVec (modelNums (.lbfgs nh bd' hist')) (modelNums h.model))
          if bx.length != 3 * h.dim then verdict (common ++ [mfield]) else
          verdict (common ++ [mfield] ++ boxDirFields o.lower o.upper h.best.point h.derivative bdH histH bx h.dir)
        | _, _ => verdict common
      else
      -- direction update from the harness' own post-line-search state (no error accumulation)
      let a' := { a with best := h.best, derivative := h.derivative }
      let n := LSOpt.computeSearchDirection a'
      verdict (common ++ [("dir", cmpVec n.dir h.dir), ("model", cmpVec (modelNums n.model) (modelNums h.model))])

/-- parse the flat `st=` field of a TrustRegionNewton state -/
def parseTrn (t : String) : Option (TRN Float) := do
  match t.splitOn "," with
  | [] => none
  | d :: rest =>
    let n ← d.toNat?
    let xs ← (rest.mapM parseBits).map (·.map Float.ofBits)
    if xs.length != 2 * n + 3 + n * n then none else
    let (pt, xs) := takeN n xs
    let val := xs.headD 0; let xs := xs.drop 1
    let (g, xs) := takeN n xs
    let delta := xs.headD 0; let mir := (xs.drop 1).headD 0; let xs := xs.drop 2
    some { delta := delta, minImprovementRatio := mir, best := ⟨pt, val⟩, gradient := g, hessian := chunk n xs }

def trnFields (m h : TRN Float) : List (String × Nat) :=
  [("point", cmpVec m.best.point h.best.point), ("value", cmpNum m.best.value.abs m.best.value h.best.value),
   ("g", cmpVec m.gradient h.gradient), ("delta", cmpNum 0 m.delta h.delta),
   ("minImprovementRatio", cmpNum 0 m.minImprovementRatio h.minImprovementRatio),
   ("hessian", cmpVec m.hessian.flatten h.hessian.flatten)]

/-! ### protocol -/

structure St where
  fl : Run Float := {}
  rt : Run Rat := {}
  ratOk : Bool := true     -- the Rat run is meaningful (no libm function involved)
  x : XSt := {}

def dblMax : Float := Float.ofBits 0x7FEFFFFFFFFFFFFF
def dblMaxRat : Rat := ratOfBits 0x7FEFFFFFFFFFFFFF

def fpow (x : Float) (n : Nat) : Float := Float.pow x (Float.ofNat n)
def rpow (x : Rat) (n : Nat) : Rat := x ^ n

/-- the exact run is dropped (ratOk := false) as soon as it differs from the Float run: from then on
the C++ run has rounded, and exact rationals of a rounding-free continuation grow without bound -/
def report (s : St) : St × String :=
  match s.fl.best, s.rt.best with
  | some bf, some br =>
    let same := s.ratOk && (bf.point.map ratOfFloat == br.point.map some) && ratOfFloat bf.value == some br.value
    ({ s with ratOk := same }, s!"pt={showVecF bf.point} val={exactF bf.value} #rat={if same then "1" else if s.ratOk then "0" else "-"}")
  | _, _ => (s, "bad-op")

def step (s : St) (line : String) : St × String :=
  let toks := (line.trimAscii.toString.splitOn " ").filter (· ≠ "")
  match toks with
  | [] => (s, "")
  | "obj" :: kind :: n :: rest =>
    match n.toNat?, rest.mapM parseBits with
    | some n, some bits =>
      let k := if kind == "quad" then ObjKind.quad else ObjKind.rosen
      if k == .quad && bits.length != n * n + n then (s, "bad-op") else
      let fs := bits.map Float.ofBits
      let rs := bits.map ratOfBits
      ({ fl := { kind := k, n := n, A := chunk n (fs.take (n*n)), b := fs.drop (n*n) },
         rt := { kind := k, n := n, A := chunk n (rs.take (n*n)), b := rs.drop (n*n) }, ratOk := true }, "ok")
    | _, _ => (s, "bad-op")
  | "box" :: rest =>
    match rest.mapM parseBits with
    | some bits =>
      let n := s.fl.n
      if bits.length != 2 * n then (s, "bad-op") else
      let fs := bits.map Float.ofBits
      let rs := bits.map ratOfBits
      ({ s with fl := { s.fl with box := some (fs.take n, fs.drop n) },
                rt := { s.rt with box := some (rs.take n, rs.drop n) } }, "ok")
    | none => (s, "bad-op")
  | "opt" :: kind :: rest =>
    match rest.mapM parseBits with
    | some bits =>
      ({ s with fl := { s.fl with cfg := ⟨kind, bits.map Float.ofBits⟩, st := .none },
                rt := { s.rt with cfg := ⟨kind, bits.map ratOfBits⟩, st := .none },
                ratOk := kind != "adam" }, "ok")
    | none => (s, "bad-op")
  | "init" :: rest =>
    match rest.mapM parseBits with
    | some bits =>
      if bits.length != s.fl.n then (s, "bad-op") else
      match s.fl.init dblMax (bits.map Float.ofBits), s.rt.init dblMaxRat (bits.map ratOfBits) with
      | some f, some r => report { s with fl := f, rt := r, ratOk := s.fl.cfg.kind != "adam" }
      | _, _ => (s, "bad-op")
    | none => (s, "bad-op")
  | ["xls", typ, n, inp, st] =>
    -- direct line search of type typ: inp = t0, x(n), d(n); st = point(n), value, gradient(n) reported by the C++
    match typ.toNat?, n.toNat?, (inp.splitOn ",").mapM parseBits, (st.splitOn ",").mapM parseBits with
    | some typ, some n, some ib, some sb =>
      let iv := ib.map Float.ofBits; let sv := sb.map Float.ofBits
      if iv.length != 2 * n + 1 || sv.length != 2 * n + 1 then (s, "bad-op") else
      let o := s.fl.obj
      let x := (iv.drop 1).take n; let d := iv.drop (n + 1)
      let r := lsFloat 0 1 typ o x (o.f x) d (o.grad x) (iv.headD 0)
      (s, verdict [("point", cmpVec r.point (sv.take n)), ("value", cmpNum r.value.abs r.value ((sv.drop n).headD 0)),
                   ("g", cmpVec r.gradient (sv.drop (n + 1)))])
    | _, _, _, _ => (s, "bad-op")
  | ["xopt", kind, ls, nh, minI, maxI] =>
    match parseBits minI, parseBits maxI with
    | some a, some b =>
      ({ s with x := { kind := kind, ls := ls.toNat?.getD 2, numHist := nh.toNat?.getD 100,
                       minI := Float.ofBits a, maxI := Float.ofBits b, cur := none } }, "ok")
    | _, _ => (s, "bad-op")
  | ["xboxdir", n, m, inp, st] =>
    -- direct call of getBoxConstrainedDirection: inp = bdiag, x(n), g(n), l(n), u(n), S(m*n), Y(m*n);
    -- st = dir(n), p0(n), B⁻¹p0(n), Bp0(n) reported by the C++
    match n.toNat?, m.toNat?, (inp.splitOn ",").mapM parseBits, (st.splitOn ",").mapM parseBits with
    | some n, some m, some ib, some sb =>
      let iv := ib.map Float.ofBits; let sv := sb.map Float.ofBits
      if iv.length != 1 + 4 * n + 2 * m * n || sv.length != 4 * n then (s, "bad-op") else
      let bdiag := iv.headD 0; let iv := iv.drop 1
      let x := iv.take n; let g := (iv.drop n).take n; let l := (iv.drop (2*n)).take n; let u := (iv.drop (3*n)).take n
      let hs := iv.drop (4 * n)
      let S := (List.range m).map fun i => (hs.drop (i * n)).take n
      let Y := (List.range m).map fun i => (hs.drop ((m + i) * n)).take n
      (s, verdict (boxDirFields l u x g bdiag (List.zip S Y) (sv.drop n) (sv.take n)))
    | _, _, _, _ => (s, "bad-op")
  | [op, st] =>
    if op != "xinit" && op != "xstep" && op != "xadopt" then (s, "bad-op") else
    match parseSt s.x.kind s.x.numHist st with
    | none => (s, "bad-op")
    | some h =>
      let out := if op == "xadopt" then "ok" else xstep s.fl.obj s.x h (op == "xinit")
      ({ s with x := { s.x with cur := some h } }, out)
  | ["step"] =>
    report { s with fl := s.fl.step Float.sqrt fpow, rt := if s.ratOk then s.rt.step id rpow else s.rt }
  | ["save", _, _] =>
    match s.fl.best with
    | none => (s, "bad-op")
    | some _ => ({ s with fl := s.fl.saveRestore dblMax, rt := if s.ratOk then s.rt.saveRestore dblMaxRat else s.rt }, "saved")
  | ["xtrn", op, st] =>
    match parseTrn st with
    | none => (s, "bad-op")
    | some h =>
      let o := s.fl.obj
      let hess := mkHessian s.fl.kind s.fl.A
      let out :=
        if op == "init" then
          -- delta and minImprovementRatio are configuration (arguments of init / set after it): adopted
          let m := { TRN.init o hess h.best.point h.delta with minImprovementRatio := h.minImprovementRatio }
          verdict (trnFields m h)
        else match s.x.tcur with
          | none => "bad-op"
          | some cur =>
            -- besides the refinement: the two facts the TRN theorems take as hypotheses / prove in exact arithmetic
            -- are checked on the tied model: the sub-problem predicts no increase, its step is inside the radius
            let sol := TRN.subproblem Float.sqrt cur
            verdict (trnFields (TRN.step Float.sqrt o hess cur) h ++
              -- (at a stationary point, g = 0, the C++ divides 0/0 in borderDistance: prediction and step are NaN, the
              --  step is rejected because every comparison with NaN is false; NaN passes these two tests)
              [("predicted-change<=0", if sol.1 > 0 then 2 else 0),
               -- (not meaningful once delta² underflows: after convergence every step is rejected and the radius is divided
               --  by 4 per step for ever)
               ("step-inside-radius", if cur.delta * cur.delta > 1e-280 && Vec.normSqr sol.2 > cur.delta * cur.delta * (1 + 1e-6) then 2 else 0)])
      ({ s with x := { s.x with tcur := some h } }, out)
  | [op, st, bx] =>
    if op != "xstep" then (s, "bad-op") else
    match parseSt s.x.kind s.x.numHist st, (bx.splitOn ",").mapM parseBits with
    | some h, some bb =>
      ({ s with x := { s.x with cur := some h } }, xstep s.fl.obj s.x h false (bb.map Float.ofBits))
    | _, _ => (s, "bad-op")
  | _ => (s, "bad-op")

partial def loop (h : IO.FS.Stream) (out : IO.FS.Stream) (s : St) : IO Unit := do
  let line ← h.getLine
  if line.isEmpty then return ()
  let (s', o) := step s line
  out.putStrLn o
  loop h out s'

def main : IO Unit := do
  loop (← IO.getStdin) (← IO.getStdout) {}
