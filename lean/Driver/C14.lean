/-
Line-protocol driver for the C14 models (environmental selection).  One op per
input line, one observation line per op; same protocol as harness/c14.cpp and
harness/c14_opt.cpp.
-/
import SharkVerif.Model.Pareto
import SharkVerif.Model.MOO
open SharkVerif.Pareto SharkVerif.MOO

def showL {α} [ToString α] (l : List α) : String :=
  "[" ++ ",".intercalate (l.map toString) ++ "]"

def chunk (m : Nat) : Nat → List Int → List Pt
  | 0, _ => []
  | n + 1, l => l.take m :: chunk m n (l.drop m)

def step (line : String) : String :=
  let toks := (line.trimAscii.toString.splitOn " ").filter (· ≠ "")
  match toks with
  | [] => ""
  | "opt" :: rest =>
    -- optimizer runs are checked by the harness' oracle; the expected observation is constant
    if rest.length == 8 then s!"opt ok steps={rest.getD 6 "?"}" else "bad-op"
  | "sel" :: _ind :: rest =>
    match rest.mapM String.toInt? with
    | some (mu :: m :: n :: nums) =>
      let S := chunk m.toNat n.toNat nums
      let ranks := fastSort S
      let (r, keep) := lastFront ranks mu.toNat
      let flags := String.join (ranks.map fun rk => if rk < r then "1" else if rk == r then "?" else "0")
      s!"ranks={showL ranks} flags={flags} keep={keep}"
    | _ => "bad-op"
  | "elit" :: rest =>
    match rest.mapM String.toInt? with
    | some (mu :: _n :: keys) =>
      let sel := elitist (sortedOrder keys) mu.toNat
      s!"sel={showL (sel.map fun i => keys.getD i 0)}"
    | _ => "bad-op"
  | _ => "bad-op"

partial def loop (h : IO.FS.Stream) (out : IO.FS.Stream) : IO Unit := do
  let line ← h.getLine
  if line.isEmpty then return ()
  out.putStrLn (step line)
  loop h out

def main : IO Unit := do
  loop (← IO.getStdin) (← IO.getStdout)
