/-
Line-protocol driver for the C14 models (environmental selection, indicators, evaluator,
population updates).  One op per input line, one observation line per op; same protocol as
harness/c14.cpp, harness/c14_gen.cpp and harness/c14_opt.cpp.
-/
import SharkVerif.Model.Pareto
import SharkVerif.Model.MOO
import SharkVerif.Model.MOOInd
import SharkVerif.Model.MOOStep
open SharkVerif.Pareto SharkVerif.MOO SharkVerif.HV

def showL {α} [ToString α] (l : List α) : String :=
  "[" ++ ",".intercalate (l.map toString) ++ "]"

def chunk (m : Nat) : Nat → List Int → List Pt
  | 0, _ => []
  | n + 1, l => l.take m :: chunk m n (l.drop m)

/-- IEEE double instance of the crowding-distance arithmetic -/
def floatNum : CrowdNum Float where
  ofInt i := Float.ofInt i
  zero := 0.0
  keep := 1.7976931348623157e308
  add := (· + ·)
  sub := (· - ·)
  div := (· / ·)
  lt a b := a < b
  eq a b := a == b

/-- the reference point used by harness/c14.cpp for `hv`: one above the largest value -/
def refAbove (m : Nat) (S : List Pt) : Pt :=
  (List.range m).map fun d => S.foldl (fun acc p => max acc (p.getD d 0 + 1)) (-1000000000)

/-- the indicator named in the op; `none`: not modelled exactly (count only) -/
def indicatorOf (name : String) (m : Nat) (r : Pt) : Option (List Pt → Indicator) :=
  if name == "hv" then some (mkIndicator (hvLeastRef r))
  else if name == "hvnoref" && m == 2 then some (mkIndicator hvLeastNoRef2d)
  else if name == "crowd" then some (mkIndicator (crowdLeast floatNum))
  else if name == "eps" then some (mkIndicator epsLeast)
  else none

def showInd (p : Indiv) : String :=
  ",".intercalate (p.x.map toString) ++ ":" ++ ",".intercalate (p.pen.map toString) ++ ":" ++
    ",".intercalate (p.unpen.map toString) ++ ":" ++ toString p.rank ++ ":" ++ (if p.sel then "1" else "0")

def showPop (l : List Indiv) : String := ";".intercalate (l.map showInd)

/-- lattice points with `n` coordinates summing to `t`, in the order of `pointLattice_helper` -/
def lattice : Nat → Nat → List (List Nat)
  | 0, _ => [[]]
  | 1, t => [[t]]
  | n + 2, t => (List.range (t + 1)).flatMap fun i => (lattice (n + 1) (t - i)).map (i :: ·)

/-- `computeOptimalLatticeTicks` -/
def latticeTicks (n target : Nat) : Nat :=
  if n == 1 then target else if n == 2 then target - 1 else
  ((List.range (target + 1)).find? fun t => (lattice n t).length ≥ target).getD target

/-- parse `c` individuals `x(d) pen(m) unpen(m)` -/
def parseOff (d m : Nat) : Nat → List Int → List Indiv × List Int
  | 0, l => ([], l)
  | c + 1, l =>
    let x := l.take d; let l := l.drop d
    let p := l.take m; let l := l.drop m
    let u := l.take m; let l := l.drop m
    let (rest, l') := parseOff d m c l
    ({ x := x, pen := p, unpen := u } :: rest, l')

def parseParents (d m : Nat) : Nat → List Int → List Indiv × List Int
  | 0, l => ([], l)
  | c + 1, l =>
    let x := l.take d; let l := l.drop d
    let f := l.take m; let l := l.drop m
    let (rest, l') := parseParents d m c l
    ({ x := x, pen := f, unpen := f } :: rest, l')

/-- run the `upd` history; returns the list of observed states -/
def runUpd (algo : String) (ind : List Pt → Indicator) (mu m d : Nat) (parents : List Indiv) :
    Nat → List Int → List String
  | 0, _ => []
  | steps + 1, l =>
    match l with
    | [] => ["short"]
    | c :: l =>
      let (off, l) := parseOff d m c.toNat l
      let next :=
        if algo == "smsemoa" then steadyUpdate ind parents (off.getD 0 default) mu
        else if algo == "ssmocma" then ssmocmaUpdate ind parents (off.getD 0 default) mu
        else genUpdate ind parents off mu
      showPop next :: runUpd algo ind mu m d next steps l

def runMoead (t : Nat) (weights nbh : List (List Nat)) (m d : Nat) (s : MoeadState) : Nat → List Int → List String
  | 0, _ => []
  | steps + 1, l =>
    match l with
    | [] => ["short"]
    | c :: l =>
      let (off, l) := parseOff d m c.toNat l
      let s' := moeadUpdate t weights nbh s (off.getD 0 default)
      showPop s'.parents :: runMoead t weights nbh m d s' steps l

/-- NSGA-III history: per step the observed association `count nz k z k z …` -/
def runNsga3 (mu m d : Nat) (parents : List Indiv) : Nat → List Int → List Int → List String
  | 0, _, _ => []
  | steps + 1, l, aux =>
    match l with
    | [] => ["short"]
    | c :: l =>
      let (off, l) := parseOff d m c.toNat l
      let cnt := (aux.getD 0 0).toNat
      let nz := (aux.getD 1 0).toNat
      let kv := ((aux.drop 2).take (2 * cnt)).map Int.toNat
      let assoc := (List.range cnt).map fun i => (kv.getD (2 * i) 0, kv.getD (2 * i + 1) 0)
      let ind : List Pt → Indicator := fun _ => fun _front archive K => nsga3Least nz archive.length assoc K
      let next := genUpdate ind parents off mu
      showPop next :: runNsga3 mu m d next steps l (aux.drop (2 + 2 * cnt))

def runRvea (mu m d groups : Nat) (parents : List Indiv) : Nat → List Int → List Int → List String
  | 0, _, _ => []
  | steps + 1, l, aux =>
    match l with
    | [] => ["short"]
    | c :: l =>
      let (off, l) := parseOff d m c.toNat l
      let n := parents.length + off.length
      let grp := (aux.take n).map Int.toNat
      let apd := ((aux.drop n).take n).map fun a => if a < 0 then none else some a
      let next := rveaUpdate parents off groups grp apd mu
      showPop next :: runRvea mu m d groups next steps l (aux.drop (2 * n))

def step (line : String) : String :=
  let toks := (line.trimAscii.toString.splitOn " ").filter (· ≠ "")
  match toks with
  | [] => ""
  | "opt" :: rest =>
    -- optimizer runs are checked by the harness' oracle; the expected observation is constant
    if rest.length == 8 || rest.length == 9 then s!"opt ok steps={rest.getD 6 "?"}" else "bad-op"
  | "sel" :: ind :: rest0 =>
    let rest := rest0.takeWhile (· ≠ "aux")
    let auxT := (rest0.dropWhile (· ≠ "aux")).drop 1
    match rest.mapM String.toInt? with
    | some (mu :: m :: n :: nums0) =>
      let hvr := ind == "hvr"
      let nums := if hvr then nums0.drop m.toNat else nums0
      let S := chunk m.toNat n.toNat nums
      let ranks := fastSort S
      -- NSGA-III: the association step (floating point) is an observed input
      let nsga3 : Option (List Pt → Indicator) :=
        match auxT.mapM String.toNat? with
        | some (nz :: kv) =>
          if ind == "nsga3" then
            let assoc := (List.range (kv.length / 2)).map fun i => (kv.getD (2 * i) 0, kv.getD (2 * i + 1) 0)
            some fun _ => fun _front archive K => nsga3Least nz archive.length assoc K
          else none
        | _ => none
      let modelled := match nsga3 with
        | some f => some f
        | none => indicatorOf (if hvr then "hv" else ind) m.toNat (if hvr then nums0.take m.toNat else refAbove m.toNat S)
      match modelled with
      | some mk =>
        let flags := select (mk S) ranks mu.toNat
        let (r, _) := lastFront ranks mu.toNat
        let keep := ((List.range ranks.length).filter fun i => ranks.getD i 0 == r && flags.getD i false).length
        s!"ranks={showL ranks} flags={String.join (flags.map fun b => if b then "1" else "0")} keep={keep}"
      | none =>
        let (r, keep) := lastFront ranks mu.toNat
        let flags := String.join (ranks.map fun rk => if rk < r then "1" else if rk == r then "?" else "0")
        s!"ranks={showL ranks} flags={flags} keep={keep}"
    | _ => "bad-op"
  | "elit" :: rest =>
    match rest.mapM String.toInt? with
    | some (mu :: _n :: keys) =>
      let sel := elitist (sortedOrder keys) mu.toNat
      s!"sel={showL (sel.map fun i => keys.getD i 0)}"
    | _ => "bad-op"
  | "pen" :: rest =>
    -- pen alpha d m n lo(d) hi(d) A(m*d) B(m) pts(n*d)
    match rest.mapM String.toInt? with
    | some (alpha :: d :: m :: n :: nums) =>
      let d := d.toNat; let m := m.toNat; let n := n.toNat
      let lo := nums.take d; let nums := nums.drop d
      let hi := nums.take d; let nums := nums.drop d
      let A := chunk d m nums; let nums := nums.drop (m * d)
      let B := nums.take m; let nums := nums.drop m
      let f : List Int → Pt := fun x =>
        (List.range m).map fun k =>
          ((A.getD k []).zipWith (· * ·) x).foldl (· + ·) 0 + B.getD k 0 * (x.map fun v => v * v).foldl (· + ·) 0
      let pts := chunk d n nums
      " ".intercalate (pts.map fun x =>
        let r := penEval f lo hi alpha x
        s!"u={showL r.unpen} p={showL r.pen} feas={if feasible lo hi x then 1 else 0}")
    | _ => "bad-op"
  | "tour" :: rest =>
    -- tour seed k n c ranks(n) aux draws(k*c)
    let main := rest.takeWhile (· ≠ "aux")
    let aux := (rest.dropWhile (· ≠ "aux")).drop 1
    match main.mapM String.toInt?, aux.mapM String.toNat? with
    | some (_seed :: k :: n :: c :: ranks), some draws =>
      if draws.length != k.toNat * c.toNat || ranks.length != n.toNat then "bad-op"
      else
        let rk := ranks.map Int.toNat
        let ws := (List.range c.toNat).map fun j => tournament rk ((draws.drop (j * k.toNat)).take k.toNat)
        s!"winners={showL ws}"
    | _, _ => "bad-op"
  | "upd" :: algo :: rest =>
    -- upd algo refflag mu m d T steps [r(m)] parents(mu*(d+m)) {c off(c*(d+2m))}^steps [aux …]
    let main := rest.takeWhile (· ≠ "aux")
    let auxT := (rest.dropWhile (· ≠ "aux")).drop 1
    match main.mapM String.toInt?, auxT.mapM String.toInt? with
    | some (refflag :: mu :: m :: d :: T :: steps :: nums), some aux =>
      let mu := mu.toNat; let m := m.toNat; let d := d.toNat; let steps := steps.toNat
      let r := if refflag == 1 then nums.take m else []
      let nums := if refflag == 1 then nums.drop m else nums
      let (parents, nums) := parseParents d m mu nums
      let hvInd : List Pt → Indicator := if refflag == 1 then mkIndicator (hvLeastRef r) else mkIndicator hvLeastNoRef2d
      if algo == "moead" then
        let t := latticeTicks m mu
        let weights := lattice m t
        let nbh := (List.range weights.length).map fun i => ((aux.drop (i * T.toNat)).take T.toNat).map Int.toNat
        let s0 : MoeadState := { parents := parents, z := List.replicate m 1000000000, cur := 0 }
        " / ".intercalate (showPop parents :: runMoead t weights nbh m d s0 steps nums)
      else if algo == "rvea" then
        " / ".intercalate (showPop parents :: runRvea mu m d mu parents steps nums aux)
      else if algo == "nsga3" then
        -- doInit: selection with mu = n (nothing is deselected, the association does not matter)
        let init := applySelect (fun _ => fun _ _ _ => []) parents mu
        " / ".intercalate (showPop init :: runNsga3 mu m d init steps nums aux)
      else
        let ind : List Pt → Indicator :=
          if algo == "nsga2" then mkIndicator (crowdLeast floatNum)
          else if algo == "nsga2eps" then mkIndicator epsLeast
          else hvInd
        let init :=
          if algo == "mocma" then parents
          else if algo == "ssmocma" then
            let l := applySelect ind parents mu
            sortRankOne l.length l
          else applySelect ind parents mu
        " / ".intercalate (showPop init :: runUpd algo ind mu m d init steps nums)
    | _, _ => "bad-op"
  | _ => "bad-op"

partial def loop (h : IO.FS.Stream) (out : IO.FS.Stream) : IO Unit := do
  let line ← h.getLine
  if line.isEmpty then return ()
  out.putStrLn (step line)
  loop h out

def main : IO Unit := do
  loop (← IO.getStdin) (← IO.getStdout)
