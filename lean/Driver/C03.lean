/-
Line-protocol driver for the dataset model (Model/Dataset.lean), same protocol
as harness/c03.cpp.  Elements are (id, label) pairs of naturals; the harness
encodes the id into the input type it was started with (unsigned / RealVector /
CompressedRealVector / a user struct) and decodes it again when printing.

usage: drv_c03 [input shape dims…]        (e.g. `drv_c03 3` for RealVector of dimension 3)

Ops (slots a b c ∈ 0..3 hold datasets, v w ∈ 0..1 hold views):
  new a m base l0 l1 …      createLabeledDataFromRange(ids base.., labels, m)
  repart a s0 s1 …          repartition
  splitb a b k              splitBatch(b, k)
  splitat a b k             D[b] = splitAtElement(D[a], k)
  splice a b k              D[b] = D[a].splice(k)
  append a b                D[a].append(D[b])
  pushb a b i               D[a].push_back(D[b].batch(i))
  subset a b i0 i1 …        D[b] = D[a].indexedSubset(idx)
  subc a b c i0 i1 …        Data::indexedSubset(idx, sub, compl) on inputs and labels
  reorder a i0 i1 …         reorderElements
  shuffle a seed ! p0 p1 …  shuffle(); the permutation the real code produced is fed back as observation
  rbc a m                   repartitionByClass(D[a], m)
  bin a b c0 c1             D[b] = binarySubProblem(D[a], c0, c1)
  ovr a b c                 D[b] = oneVersusRestProblem(D[a], c)
  xform a b k mode          D[b] = transformInputs(D[a], id ↦ id + k)  (mode 0 element-wise, 1 batch-wise)
  xlab a b k                D[b] = transformLabels(D[a], l ↦ l + k)
  copy a b                  D[b] = D[a]
  iter a p n                it = begin + p; it += n (n biased by 1000: n-1000); print index and *it
  view v a | vsub v w i… | v2d v b m | vbat v b i…    DataView operations
  zero                      evaluate the generated optimalBatchSizes at 0 (F1 probe)
-/
import SharkVerif.Model.Dataset
open SharkVerif.Dataset SharkVerif.Gen.BatchArith

abbrev DS := CData Nat
instance : Inhabited DS := ⟨LabeledData.empty⟩

structure St where
  ishape : Shape := []
  d : Array DS := #[LabeledData.empty, LabeledData.empty, LabeledData.empty, LabeledData.empty]
  v : Array (Option (View Nat Nat)) := #[none, none]

def showNats (l : List Nat) : String := "[" ++ " ".intercalate (l.map toString) ++ "]"
def showEl : Option (Nat × Nat) → String
  | some (i, l) => s!"{i}:{l}"
  | none => "?"
def showEls (l : List (Option (Nat × Nat))) : String := "[" ++ " ".intercalate (l.map showEl) ++ "]"

def showDS (k : Nat) (d : DS) : String :=
  let c := d.container
  let viaBatches := d.flat.map some
  let bad := (if c.elementsFwd != viaBatches then ["elements"] else [])
    ++ (if c.elementsIdx != viaBatches then ["element(i)"] else [])
    ++ (if c.elementsRev.reverse != viaBatches then ["reverse"] else [])
  let paths := if bad.isEmpty then "ok" else "BAD:" ++ ",".intercalate bad
  s!"D{k}\{ish={showNats d.inputs.shape} lsh={showNats d.labels.shape} part={showNats d.inputs.partitioning} " ++
  s!"lpart={showNats d.labels.partitioning} n={d.numberOfElements} el={showEls viaBatches} paths={paths}}"

def showView (k : Nat) : Option (View Nat Nat) → String
  | none => s!"V{k}\{-}"
  | some v => s!"V{k}\{idx={showNats (v.indices.map (·.datasetIndex))} el={showEls v.elements}}"

def showState (s : St) : String :=
  " ".intercalate ((List.range 4).map (fun k => showDS k (s.d[k]!)) ++ (List.range 2).map (fun k => showView k (s.v[k]!)))

def isPerm (p : List Nat) (n : Nat) : Bool := p.isPerm (List.range n)

def slotOk (a : Nat) : Bool := a < 4
def vslotOk (a : Nat) : Bool := a < 2

/-- result of an op: new state and an extra observation string -/
def exec (s : St) (op : String) (a : List Nat) (obs : Option (List Nat)) : R (St × String) := do
  let D (k : Nat) : R DS := if h : k < s.d.size then pure s.d[k] else throw .undefined
  let setD (s : St) (k : Nat) (x : DS) : St := { s with d := s.d.setIfInBounds k x }
  let V (k : Nat) : R (View Nat Nat) := match s.v[k]? with
    | some (some v) => pure v
    | _ => throw .undefined
  match op, a with
  | "new", a :: m :: base :: labels =>
    require (slotOk a)
    let n := labels.length
    let x ← LabeledData.createFromRange ((List.range n).map (· + base)) labels m s.ishape []
    pure (setD s a x, "")
  | "repart", a :: sizes => do
    let x ← (← D a).repartitionByLoop sizes   -- the copy loop of the C++ (= repartition, C03.repartition_loop_eq)
    pure (setD s a x, "")
  | "splitb", [a, b, k] => do
    let x ← (← D a).splitBatch b k
    pure (setD s a x, "")
  | "splitat", [a, b, k] => do
    require (slotOk b && a != b)
    let (l, r) ← (← D a).splitAtElement k
    pure (setD (setD s a l) b r, "")
  | "splice", [a, b, k] => do
    require (slotOk b && a != b)
    let (l, r) ← (← D a).splice k
    pure (setD (setD s a l) b r, "")
  | "append", [a, b] => do
    require (a != b)
    let x := (← D a).append (← D b)
    pure (setD s a x, "")
  | "pushb", [a, b, i] => do
    require (a != b)
    let src ← D b
    let bi ← ofOpt src.inputs.batches[i]?
    let bl ← ofOpt src.labels.batches[i]?
    pure (setD s a ((← D a).pushBack bi bl), "")
  | "subset", a :: b :: idx => do
    require (slotOk b)
    let x ← (← D a).indexedSubset idx
    pure (setD s b x, "")
  | "subc", a :: b :: c :: idx => do
    require (slotOk b && slotOk c && b != c)
    let src ← D a
    let (si, ci) ← src.inputs.indexedSubsetCompl idx
    let (sl, cl) ← src.labels.indexedSubsetCompl idx
    pure (setD (setD s b (← LabeledData.mk' si sl)) c (← LabeledData.mk' ci cl), "")
  | "reorder", a :: idx => do
    let x ← (← D a).reorderElements idx
    pure (setD s a x, "")
  | "shuffle", [a, _seed] => do
    let src ← D a
    require (src.numberOfElements > 0)
    match obs with
    | none => pure (s, "obs=MISSING")
    | some p =>
      if !isPerm p src.numberOfElements then pure (s, s!"obs=NOT-A-PERMUTATION{showNats p}")
      else
        let x ← src.reorderElements p
        pure (setD s a x, s!"obs={showNats p}")
  | "rbc", [a, m] => do
    require (m > 0 && (← D a).numberOfElements > 0)
    let x ← repartitionByClass (← D a) m
    pure (setD s a x, "")
  | "bin", [a, b, c0, c1] => do
    require (slotOk b)
    let x ← binarySubProblem (← D a) c0 c1
    pure (setD s b x, "")
  | "ovr", [a, b, c] => do
    require (slotOk b)
    let x ← oneVersusRestProblem (← D a) c
    pure (setD s b x, "")
  | "xform", [a, b, k, _mode] => do
    require (slotOk b)
    let src ← D a
    require (src.numberOfElements > 0)   -- InferShape reads element(0)
    let x ← src.transformInputs (· + k) s.ishape
    pure (setD s b x, "")
  | "xlab", [a, b, k] => do
    require (slotOk b)
    let x ← (← D a).transformLabels (· + k) []
    pure (setD s b x, "")
  | "copy", [a, b] => do
    require (slotOk b)
    pure (setD s b (← D a), "")
  | "iter", [a, p, nb] => do
    let src ← D a
    let c := src.container
    let n : Int := (nb : Int) - 1000
    let it ← ofOpt (Iter.begin.advance c.sizes p)
    let it ← ofOpt (it.advance c.sizes n)
    let val := if it.pos < src.numberOfElements then showEl (c.deref it) else "end"
    pure (s, s!"idx={it.pos} val={val}")
  | "view", [v, a] => do
    require (vslotOk v)
    pure ({ s with v := s.v.setIfInBounds v (some (View.ofDataset (← D a))) }, "")
  | "vsub", v :: w :: idx => do
    require (vslotOk w)
    let x ← (← V v).subset idx
    pure ({ s with v := s.v.setIfInBounds w (some x) }, "")
  | "v2d", [v, b, m] => do
    require (slotOk b)
    let x ← (← V v).toDataset m
    pure (setD s b x, "")
  | "vbat", v :: b :: idx => do
    require (slotOk b && !idx.isEmpty)
    let els ← (← V v).subBatch idx
    pure (setD s b (LabeledData.empty.pushBack (els.map (·.1)) (els.map (·.2))), "")
  | "zero", [] =>
    pure (s, s!"obs0={match optimalBatchSizes 0 1 with | some l => showNats l | none => "undefined"}")
  | _, _ => throw .undefined

def step (s : St) (line : String) : St × String :=
  let parts := line.trimAscii.toString.splitOn "!"
  let toks := ((parts.headD "").splitOn " ").filter (· ≠ "")
  let obs : Option (List Nat) := match parts with
    | [_, o] => ((o.splitOn " ").filter (· ≠ "")).mapM String.toNat?
    | _ => none
  match toks with
  | [] => (s, "")
  | op :: args =>
    match args.mapM String.toNat? with
    | none => (s, "bad-op")
    | some a =>
      match exec s op a obs with
      | .ok (s', extra) => (s', (if extra.isEmpty then "ok" else "ok " ++ extra) ++ " | " ++ showState s')
      | .error .exception => (s, "exception | " ++ showState s)
      | .error .undefined => (s, "undefined | " ++ showState s)

partial def loop (h : IO.FS.Stream) (out : IO.FS.Stream) (s : St) : IO Unit := do
  let line ← h.getLine
  if line.isEmpty then return ()
  let (s', o) := step s line
  out.putStrLn o
  out.flush
  loop h out s'

def main (args : List String) : IO Unit := do
  let sh := args.filterMap String.toNat?
  loop (← IO.getStdin) (← IO.getStdout) { ishape := sh }
