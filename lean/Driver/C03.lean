/-
Line-protocol driver for the dataset model, same protocol as harness/c03.cpp.  The state is a
`Shared.World` (Model/DatasetShared.lean: the shared batch pointers made explicit); the value-level
operations are those of Model/Dataset.lean.  Elements are (id, label) pairs of naturals; the harness
encodes the id into the input type it was started with (unsigned / RealVector /
CompressedRealVector / a user struct) and decodes it again when printing.

usage: drv_c03 [input shape dims…] [legacy-v2d-shape]     (e.g. `drv_c03 3` for RealVector of dimension 3)

Ops (slots a b c ∈ 0..3 hold datasets, v w ∈ 0..1 hold views):
  new a m base l0 l1 …      createLabeledDataFromRange(ids base.., labels, m)   (no labels: the empty range)
  mk3 a n m id l            D[a] = LabeledData(n, (id,l), m)  -- Data(size, element, batchSize)
  repart a s0 s1 …          makeIndependent(); repartition          rrepart: without makeIndependent
  splitb a b k              makeIndependent(); splitBatch(b, k)     rsplitb: without
  splitat a b k             makeIndependent(); D[b] = splitAtElement(D[a], k)   rsplitat: without
  splice a b k              makeIndependent(); D[b] = D[a].splice(k)            rsplice: without
  indep a                   D[a].makeIndependent()
  append a b                D[a].append(D[b])
  pushb a b i               D[a].push_back(D[b].batch(i))
  subset a b i0 i1 …        D[b] = D[a].indexedSubset(idx)
  subc a b c i0 i1 …        Data::indexedSubset(idx, sub, compl) on inputs and labels
  reorder a i0 i1 …         reorderElements
  shuffle a seed ! p0 p1 …  shuffle(); the permutation the real code produced is fed back as observation
  ushuf a b seed ! p0 p1 …  u = D[a].inputs(); u.shuffle() (UnlabeledData); D[b] = LabeledData(u, D[a].labels())
  rbc a m                   makeIndependent(); repartitionByClass(D[a], m)      rrbc: without
  bin a b c0 c1             D[b] = binarySubProblem(D[a], c0, c1)
  ovr a b c                 D[b] = oneVersusRestProblem(D[a], c)
  xform a b k mode          D[b] = transformInputs(D[a], id ↦ id + k)  (mode 0 element-wise, 1 batch-wise)
  xlab a b k                D[b] = transformLabels(D[a], l ↦ l + k)
  copy a b | swap a b       D[b] = D[a] | swap(D[a], D[b])
  setel a i id l            D[a].element(i) = (id, l)      -- in place, through the non-const element proxy
  cpel a i j                D[a].element(i) = D[a].element(j)
  iter a p n                it = begin + p; it += n (n biased by 1000: n-1000); print index and *it
  view v a | vsub v w i… | v2d v b m | vbat v b i…    DataView operations
  vset v i id l             V[v][i] = (id, l)              -- in place, through the view
  vrand v w k seed ! i0 …   V[w] = randomSubset(V[v], k); the positions the real code drew are fed back
  zero                      evaluate the generated optimalBatchSizes at 0 (F1 probe)
  reset                     destroy all datasets and views (first op of every generated history)
After every op the whole state is printed; `ind=xy` tells whether the input / label container of a slot is
independent (`SharedContainer::isIndependent()`, i.e. every batch pointer has use-count 1).
-/
import SharkVerif.Model.DatasetShared
open SharkVerif.Dataset SharkVerif.Gen.BatchArith
open SharkVerif.Dataset.Shared (World PLabeled PView independent)

abbrev DS := CData Nat
abbrev W := World Nat Nat

structure St where
  ishape : Shape := []
  v2dKeepShape : Bool := true     -- `legacy-v2d-shape` on the command line: toDataset as before the repair of F-C03-16
  w : W := { d := [PLabeled.empty, PLabeled.empty, PLabeled.empty, PLabeled.empty], v := [none, none] }

def showNats (l : List Nat) : String := "[" ++ " ".intercalate (l.map toString) ++ "]"
def showEl : Option (Nat × Nat) → String
  | some (i, l) => s!"{i}:{l}"
  | none => "?"
def showEls (l : List (Option (Nat × Nat))) : String := "[" ++ " ".intercalate (l.map showEl) ++ "]"
def flag (b : Bool) : String := if b then "1" else "0"

def showDS (w : W) (k : Nat) : String :=
  let p := w.d.getD k PLabeled.empty
  let d : DS := w.value k
  let c := d.container
  let viaBatches := d.flat.map some
  let paths :=
    if d.inputs.partitioning.contains 0 then "na"     -- an empty batch: the element iterator is not defined on it
    else
      let bad := (if c.elementsFwd != viaBatches then ["elements"] else [])
        ++ (if c.elementsIdx != viaBatches then ["element(i)"] else [])
        ++ (if c.elementsRev.reverse != viaBatches then ["reverse"] else [])
      if bad.isEmpty then "ok" else "BAD:" ++ ",".intercalate bad
  s!"D{k}\{ish={showNats d.inputs.shape} lsh={showNats d.labels.shape} part={showNats d.inputs.partitioning} " ++
  s!"lpart={showNats d.labels.partitioning} n={d.numberOfElements} el={showEls viaBatches} paths={paths} " ++
  s!"ind={flag (independent w.ucI p.inputs)}{flag (independent w.ucL p.labels)}}"

def showView (w : W) (k : Nat) : String :=
  match w.v.getD k none with
  | none => s!"V{k}\{-}"
  | some pv =>
    let v := w.resolveView pv
    s!"V{k}\{idx={showNats (v.indices.map (·.datasetIndex))} el={showEls v.elements}}"

def showState (s : St) : String :=
  " ".intercalate ((List.range 4).map (fun k => showDS s.w k) ++ (List.range 2).map (fun k => showView s.w k))

def isPerm (p : List Nat) (n : Nat) : Bool := p.isPerm (List.range n)
def noEmptyBatch (d : DS) : Bool := !d.inputs.partitioning.contains 0 && !d.labels.partitioning.contains 0

/-- result of an op: new world and an extra observation string -/
def exec (s : St) (op : String) (a : List Nat) (obs : Option (List Nat)) : R (W × String) := do
  let w := s.w
  let D (k : Nat) : R DS := do let _ ← w.slot k; pure (w.value k)
  -- ops that read elements through the iterator demand non-empty batches (the harness answers `undefined` likewise)
  let needFull (k : Nat) : R Unit := do require (noEmptyBatch (← D k))
  match op, a with
  | "reset", [] =>
    -- all dataset objects and views are destroyed (first op of every generated history: histories are self-contained)
    pure ({ d := [PLabeled.empty, PLabeled.empty, PLabeled.empty, PLabeled.empty], v := [none, none] }, "")
  | "new", a :: m :: base :: labels =>
    let n := labels.length
    if n = 0 then
      pure (← w.store a LabeledData.empty, "")      -- the empty range: an empty dataset (finding F-C03-18 where the C++ differs)
    else
      let x ← LabeledData.createFromRange ((List.range n).map (· + base)) labels m s.ishape []
      pure (← w.store a x, "")
  | "mk3", [a, n, m, id, l] => do
    let sizes ← ofOpt (initializeBatchSizes n m)
    let x : DS := ⟨{ batches := splitBySizes (List.replicate n id) sizes }, { batches := splitBySizes (List.replicate n l) sizes }⟩
    pure (← w.store a x, "")
  | "repart", a :: sizes => do
    needFull a
    pure (← (← w.makeIndependent a).repartition a sizes, "")
  | "rrepart", a :: sizes => do
    needFull a
    pure (← w.repartition a sizes, "")
  | "splitb", [a, b, k] => do pure (← (← w.makeIndependent a).splitBatch a b k, "")
  | "rsplitb", [a, b, k] => do pure (← w.splitBatch a b k, "")
  | "splitat", [a, b, k] => do
    needFull a
    pure (← (← w.makeIndependent a).splitAtElement a b k, "")
  | "rsplitat", [a, b, k] => do
    needFull a
    pure (← w.splitAtElement a b k, "")
  | "splice", [a, b, k] => do pure (← (← w.makeIndependent a).splice a b k, "")
  | "rsplice", [a, b, k] => do pure (← w.splice a b k, "")
  | "indep", [a] => do pure (← w.makeIndependent a, "")
  | "append", [a, b] => do
    require (a != b)
    pure (← w.append a b, "")
  | "pushb", [a, b, i] => do
    require (a != b)
    pure (← w.pushBack a b i, "")
  | "subset", a :: b :: idx => do pure (← w.indexedSubset a b idx, "")
  | "subc", a :: b :: c :: idx => do pure (← w.indexedSubsetCompl a b c idx, "")
  | "reorder", a :: idx => do
    needFull a
    pure (← w.reorderElements a idx, "")
  | "shuffle", [a, _seed] => do
    let src ← D a
    needFull a
    require (src.numberOfElements > 0)
    match obs with
    | none => pure (w, "obs=MISSING")
    | some p =>
      if !isPerm p src.numberOfElements then pure (w, s!"obs=NOT-A-PERMUTATION{showNats p}")
      else pure (← w.reorderElements a p, s!"obs={showNats p}")
  | "ushuf", [a, b, _seed] => do
    let src ← D a
    needFull a
    require (src.numberOfElements > 0)
    match obs with
    | none => pure (w, "obs=MISSING")
    | some p =>
      if !isPerm p src.numberOfElements then pure (w, s!"obs=NOT-A-PERMUTATION{showNats p}")
      else pure (← w.reorderInputs a b p, s!"obs={showNats p}")
  | "rbc", [a, m] => do
    needFull a
    require (m > 0 && (← D a).numberOfElements > 0)
    pure (← (← w.makeIndependent a).repartitionByClass a m, "")
  | "rrbc", [a, m] => do
    needFull a
    require (m > 0 && (← D a).numberOfElements > 0)
    pure (← w.repartitionByClass a m, "")
  | "bin", [a, b, c0, c1] => do
    needFull a
    pure (← w.binarySubProblem a b c0 c1, "")
  | "ovr", [a, b, c] => do
    needFull a
    pure (← w.transformLabels a b (fun l => if l = c then 1 else 0) [], "")
  | "xform", [a, b, k, _mode] => do
    needFull a
    -- InferShape reads element(0); the empty dataset (no batch at all) has no shape to infer (finding F-C03-18)
    let src ← D a
    require (src.numberOfElements > 0 || src.numberOfBatches = 0)
    pure (← w.transformInputs a b (· + k) (if src.numberOfElements = 0 then [] else s.ishape), "")
  | "xlab", [a, b, k] => do
    needFull a
    pure (← w.transformLabels a b (· + k) [], "")
  | "copy", [a, b] => do pure (← w.copy a b, "")
  | "swap", [a, b] => do pure (← w.swap a b, "")
  | "setel", [a, i, id, l] => do
    needFull a
    pure (← w.setElement a i id l, "")
  | "cpel", [a, i, j] => do
    needFull a
    let (x, y) ← ofOpt (((← D a).container.elementAt j))
    pure (← w.setElement a i x y, "")
  | "iter", [a, p, nb] => do
    needFull a
    let src ← D a
    let c := src.container
    let n : Int := (nb : Int) - 1000
    let it ← ofOpt (Iter.begin.advance c.sizes p)
    let it ← ofOpt (it.advance c.sizes n)
    let val := if it.pos < src.numberOfElements then showEl (c.deref it) else "end"
    pure (w, s!"idx={it.pos} val={val}")
  | "view", [v, a] => do
    needFull a
    pure (← w.mkView v a, "")
  | "vsub", v :: k2 :: idx => do pure (← w.viewSubset v k2 idx, "")
  | "vset", [v, i, id, l] => do pure (← w.viewSet v i id l, "")
  | "vrand", [v, k2, k, _seed] => do
    let pv ← w.view v
    require (k ≤ pv.indices.length && pv.indices.length > 0)
    match obs with
    | none => pure (w, "obs=MISSING")
    | some p =>
      -- randomSubset: `k` distinct positions of the view
      if p.length != k || !(p.all (· < pv.indices.length)) || !(p.eraseDups.length == p.length) then
        pure (w, s!"obs=NOT-A-SUBSET{showNats p}")
      else pure (← w.viewSubset v k2 p, s!"obs={showNats p}")
  | "v2d", [v, b, m] => do
    let x ← (w.resolveView (← w.view v)).toDataset m s.v2dKeepShape
    pure (← w.store b x, "")
  | "vbat", v :: b :: idx => do
    require (!idx.isEmpty)
    let els ← (w.resolveView (← w.view v)).subBatch idx
    pure (← w.store b (LabeledData.empty.pushBack (els.map (·.1)) (els.map (·.2))), "")
  | "zero", [] =>
    pure (w, s!"obs0={match optimalBatchSizes 0 1 with | some l => showNats l | none => "undefined"}")
  | _, _ => throw .undefined

def step (s : St) (line : String) : St × String :=
  let parts := line.trimAscii.toString.splitOn "!"
  let toks := ((parts.headD "").splitOn " ").filter (· ≠ "")
  let obs : Option (List Nat) := match parts with
    | [_, o] => ((o.splitOn " ").filter (· ≠ "")).mapM String.toNat?
    | _ => none
  match toks with
  | [] => (s, "")
  | op :: args =>
    match args.mapM String.toNat? with
    | none => (s, "bad-op")
    | some a =>
      match exec s op a obs with
      | .ok (w', extra) =>
        let s' := { s with w := w' }
        (s', (if extra.isEmpty then "ok" else "ok " ++ extra) ++ " | " ++ showState s')
      | .error .exception => (s, "exception | " ++ showState s)
      | .error .undefined => (s, "undefined | " ++ showState s)

partial def loop (h : IO.FS.Stream) (out : IO.FS.Stream) (s : St) : IO Unit := do
  let line ← h.getLine
  if line.isEmpty then return ()
  let (s', o) := step s line
  out.putStrLn o
  out.flush
  loop h out s'

def main (args : List String) : IO Unit := do
  let sh := args.filterMap String.toNat?
  loop (← IO.getStdin) (← IO.getStdout) { ishape := sh, v2dKeepShape := !args.contains "legacy-v2d-shape" }
