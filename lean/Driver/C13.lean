/-
Line-protocol driver for the C13 models (dominance, non-dominated sorting,
hypervolume, contributions, subset selection).  One op per input line, one
observation line per op; same protocol as harness/c13.cpp.
-/
import SharkVerif.Model.Pareto
import SharkVerif.Model.Hypervolume
import SharkVerif.Model.HV3D
import SharkVerif.Model.DCSort
import SharkVerif.Model.Subset2D
import SharkVerif.Model.HOY
import SharkVerif.Model.Contrib3D
open SharkVerif.Pareto SharkVerif.HV SharkVerif.DC

def showL {α} [ToString α] (l : List α) : String :=
  "[" ++ ",".intercalate (l.map toString) ++ "]"

/-- split a flat coordinate list into `n` points of dimension `m` -/
def chunk (m : Nat) : Nat → List Int → List Pt
  | 0, _ => []
  | n + 1, l => l.take m :: chunk m n (l.drop m)

def step (line : String) : String :=
  let toks0 := (line.trimAscii.toString.splitOn " ").filter (· ≠ "")
  -- `q<den>`: the C++ runs on the coordinates divided by den and reports volumes times den^m; by homogeneity and
  -- scale invariance (Lemmas/Scale.lean, Lemmas/RatLift.lean) that is the line computed on the integer numerators
  let toks := match toks0 with
    | t :: rest =>
      -- `e<k>`: scale class 2^k applied to points and reference in the C++ (volumes reported divided by 2^(k*m)): by
      -- rankSpec_scale / hvSpec_scale_shift / hvQ_scale the line of the unscaled integers
      if (t.startsWith "q" || t.startsWith "e" || t.startsWith "t") && t.length > 1 && ((t.drop 1).toString.toInt?).isSome then rest else toks0
    | [] => toks0
  match toks with
  | [] => ""
  | op :: args =>
    if op == "con" then
      -- con <2d|3d|md> <small|large> k m n ref.. pts..
      match args with
      | alg :: kind :: rest =>
        match rest.mapM String.toInt? with
        | some (k :: m :: n :: nums) =>
          let m := m.toNat; let n := n.toNat; let k := k.toNat
          let r := nums.take m
          let S := chunk m n (nums.drop m)
          -- the (contribution, index) pairs computed by the modelled routine
          let cs : List KV :=
            if alg == "2d" then contribs2d S r
            else if alg == "3d" then contribs3d S r
            else if alg == "md" then contribsMD SharkVerif.DC.nds hvDisp S r
            else contribsDisp S r
          let all : List Int := (List.range n).map fun i => ((cs.find? fun c => c.2 == i).map (·.1)).getD (-1)
          let sel := (if kind == "small" then smallestOf cs k else largestOf cs k).map (·.1)
          let spec : List Int := (List.range n).map fun i => contribSpec S r i
          s!"all={showL all} sel={showL sel} spec={showL spec}"
        | _ => "bad-op"
      | _ => "bad-op"
    else
    match args.mapM String.toInt? with
    | none => "bad-op"
    | some a =>
      match op, a with
      | "dom", m :: nums =>
        let m := m.toNat
        let p := nums.take m; let q := (nums.drop m).take m
        s!"rel={(dominance p q).code} rev={(dominance q p).code}"
      | "sort", m :: n :: nums =>
        let S := chunk m.toNat n.toNat nums
        -- the model of fastNonDominatedSort is quadratic on lists: beyond 1500 points (one thorough-tier case with
        -- n > 5000) the line is produced from the divide-and-conquer model (both are proved equal to rankSpec)
        let fast := if S.length ≤ 1500 then fastSort S else dcSort S
        -- rankSpec is a plain well-founded recursion (exponential without memoisation): run it on small
        -- inputs only; `fastSort_eq_rankSpec` makes the two interchangeable
        let spec := if S.length ≤ 9 then S.map (rankSpec S) else fast
        s!"fast={showL fast} dc={showL (dcSort S)} nds={showL (nds S)} spec={showL spec}"
      | "hv", m :: n :: nums =>
        let m := m.toNat
        let r := nums.take m
        let S := chunk m n.toNat (nums.drop m)
        let spec : Int := hvSpec S r
        let parts : List String :=
          (if m == 2 then [s!"hv2d={hv2d S r}"] else []) ++
          (if m == 3 then [s!"hv3d={hv3d S r}"] else []) ++
          (if m ≥ 3 then [s!"hoy={SharkVerif.HOY.hvHoy S r}"] else []) ++
          (if S.length ≤ 12 then [s!"wfg={hvWfg S r}"] else []) ++ [s!"disp={spec}"]
        " ".intercalate parts
      | "hoys", m :: n :: sq :: split :: cover :: nums =>
        -- HypervolumeCalculatorMDHOY::stream called directly
        let m := m.toNat; let n := n.toNat
        let low := nums.take m; let up := (nums.drop m).take m
        let P := chunk m n (nums.drop (2 * m))
        let split := split.toNat
        let sorted := (P.zip (P.drop 1)).all fun (x, y) => SharkVerif.HOY.lastC x ≤ SharkVerif.HOY.lastC y
        let ok := m ≥ 2 && split + 2 ≤ m &&
          (List.range (m - 1)).all (fun d => low.getD d 0 < up.getD d 0) && sorted &&
          P.all (fun p => SharkVerif.HOY.lastC p < cover &&
            (List.range (m - 1)).all (fun d => p.getD d 0 < up.getD d 0) &&
            ((List.range split).filter fun d => low.getD d 0 < p.getD d 0).length < 2 &&
            (List.range (m - 1)).all (fun d => d ≤ split || low.getD d 0 ≤ p.getD d 0))
        if !ok then "skip"
        else
          let v : Int := if n == 0 then 0 else SharkVerif.HOY.stream sq.toNat (16 * (n + m) + 64) low up P split cover
          s!"stream={v}"
      | "dca", k :: m :: n :: _ :: nums =>
        let m := m.toNat; let n := n.toNat
        let U := (chunk m n nums).toArray
        let frt : Frt := ((nums.drop (n * m)).take n).map Int.toNat |>.toArray
        if k.toNat < 2 || k.toNat > m then "bad-op"
        else s!"frt={showL (helperA U (dcFuel n m) (List.range n) k.toNat frt).toList}"
      | "dcb", k :: m :: nL :: nH :: nums =>
        let m := m.toNat; let nL := nL.toNat; let nH := nH.toNat; let n := nL + nH
        let U := (chunk m n nums).toArray
        let frt : Frt := ((nums.drop (n * m)).take n).map Int.toNat |>.toArray
        if k.toNat < 2 || k.toNat > m then "bad-op"
        else s!"frt={showL (helperB U (dcFuel n m) (List.range nL) ((List.range nH).map (· + nL)) k.toNat frt).toList}"
      | "ssp", k :: n :: nums =>
        let r := nums.take 2
        let S := chunk 2 n.toNat (nums.drop 2)
        let flags := SharkVerif.SSP.select S k.toNat r
        let T := ((S.zip flags).filter (·.2)).map (·.1)
        let selIdx := (List.range S.length).filter fun i => flags.getD i false
        let best := if S.length ≤ 12 then toString (bestSubsetHv S k.toNat r) else "-"
        s!"cnt={T.length} hv={hvSpec T r} best={best} sel={showL selIdx}"
      | _, _ => "bad-op"

partial def loop (h : IO.FS.Stream) (out : IO.FS.Stream) : IO Unit := do
  let line ← h.getLine
  if line.isEmpty then return ()
  out.putStrLn (step line)
  loop h out

def main : IO Unit := do
  loop (← IO.getStdin) (← IO.getStdout)
