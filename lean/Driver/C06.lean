/-
Line-protocol driver for the C06 models (losses, ErrorFunction, regularizers).
Numbers are dyadic tokens `a/k` (= a / 2^k).  `mode rat|float` selects the
instance the following ops are evaluated with.  Output numbers are printed as
`m e` (= m·2^e, m odd) — the format of `vh::exactDouble` in harness/common.hpp.
-/
import SharkVerif.Model.Loss
import SharkVerif.Gen.ParRegions
open SharkVerif SharkVerif.Loss SharkVerif.Scalar

/-- normalise `m·2^e` to odd `m` -/
partial def normME (m e : Int) : String :=
  if m == 0 then "0 0" else
  if m % 2 == 0 then normME (m / 2) (e + 1) else s!"{m} {e}"

def log2? (d : Nat) : Option Nat :=
  let rec go (fuel d k : Nat) : Option Nat :=
    match fuel with
    | 0 => none
    | f+1 => if d == 1 then some k else if d % 2 == 0 then go f (d / 2) (k + 1) else none
  go 4096 d 0

def showRat (q : Rat) : String :=
  match log2? q.den with
  | some k => normME q.num (-(k : Int))
  | none => s!"q {q.num}/{q.den}"

def showFloat (x : Float) : String :=
  if x.isNaN then "nan" else if x.isInf then (if x > 0 then "inf" else "-inf") else
  let b := x.toBits.toNat
  let sign : Int := if b / 2 ^ 63 == 1 then -1 else 1
  let ex : Nat := (b / 2 ^ 52) % 2048
  let frac : Nat := b % 2 ^ 52
  if ex == 0 then normME (sign * Int.ofNat frac) (-1074)
  else normME (sign * Int.ofNat (2 ^ 52 + frac)) (Int.ofNat ex - 1075)

class Num (α : Type) extends Scalar α where
  ofDy : Int → Nat → α
  shw : α → String
  exp : α → α
  log : α → α
  sqrt : α → α

instance : Num Rat where
  ofDy a k := (a : Rat) / ((2 ^ k : Nat) : Rat)
  shw := showRat
  exp x := x       -- not used in rat mode (exp/log losses are float-only)
  log x := x
  sqrt x := x
instance : Num Float where
  ofDy a k := Float.ofInt a / (2 ^ k : Nat).toFloat
  shw := showFloat
  exp := Float.exp
  log := Float.log
  sqrt := Float.sqrt

def parseDy {α} [Num α] (t : String) : Option α :=
  match t.splitOn "/" with
  | [a, k] => do let a ← a.toInt?; let k ← k.toNat?; pure (Num.ofDy a k)
  | [a] => do let a ← a.toInt?; pure (Num.ofDy a 0)
  | _ => none

def chunk {β} (l : List β) (m : Nat) : List (List β) :=
  if m = 0 then l.map fun _ => [] else
  let rec go (fuel : Nat) (l : List β) : List (List β) :=
    match fuel with
    | 0 => []
    | f+1 => if l.isEmpty then [] else l.take m :: go f (l.drop m)
  go (l.length + 1) l

def showVec {α} [Num α] (v : List α) : String := ",".intercalate (v.map Num.shw)
def showMat {α} [Num α] (g : List (List α)) : String := ";".intercalate (g.map showVec)

/-- sections of an op line are separated by `|` -/
def sections (line : String) : List (List String) :=
  (line.splitOn "|").map fun s => (s.trimAscii.toString.splitOn " ").filter (· ≠ "")

def runOp {α} [Num α] (secs : List (List String)) : String :=
  let nums : List String → Option (List α) := fun ts => ts.mapM parseDy
  let nats (ts : List String) : Option (List Nat) := ts.mapM String.toNat?
  match secs with
  | [[kind, loss], par, dims, labs, prs] =>
    match nats dims, nums par, nums prs with
    | some [_n, m], some par, some prs =>
      let preds := chunk prs m
      let vecLabels : Option (List (List α)) := (nums labs).map fun l => chunk l m
      let clsLabels : Option (List Nat) := nats labs
      let out (v : α) (g : Option (List (List α))) : String :=
        match kind, g with
        | "deriv", some g => s!"V={Num.shw v} G={showMat g}"
        | _, _ => s!"V={Num.shw v}"
      match loss, vecLabels, clsLabels with
      | "squared", some l, _ =>
        if kind == "deriv" then let r := squaredEvalDerivative l preds; out r.1 (some r.2) else out (squaredEval l preds) none
      | "squaredclass", _, some c =>
        if kind == "deriv" then let r := squaredClassEvalDerivative c preds; out r.1 (some r.2) else out (squaredClassEval c preds) none
      | "hinge", _, some c =>
        if kind == "deriv" then let r := hingeEvalDerivative c preds; out r.1 (some r.2) else out (hingeEval c preds) none
      | "sqhinge", _, some c => out (sqHingeEval c preds) none
      | "epshinge", some l, _ =>
        let eps := par.getD 0 0
        if kind == "deriv" then let r := epsHingeEvalDerivative eps l preds; out r.1 (some r.2) else out (epsHingeEval eps l preds) none
      | "sqepshinge", some l, _ =>
        let e2 := sqr (par.getD 0 0)
        if kind == "deriv" then let r := sqEpsHingeEvalDerivative e2 l preds; out r.1 (some r.2) else out (sqEpsHingeEval e2 l preds) none
      | "huber", some l, _ =>
        let d := par.getD 0 1
        if kind == "deriv" then out (huberEval Num.sqrt d l preds) (some (List.zipWith (huberGradRow Num.sqrt d) l preds))
        else out (huberEval Num.sqrt d l preds) none
      | "crossentropy", _, some c =>
        if kind == "deriv" then let r := ceEvalDerivative Num.exp Num.log c preds; out r.1 (some r.2)
        else out (ceEval Num.exp Num.log c preds) none
      | "zeroone", _, some c => out (zeroOneEval (par.getD 0 0) c preds) none
      | _, _, _ => "bad-op"
    | _, _, _ => "bad-op"
  -- errfn | T order… | B | batch losses | numElements       (thread ranges generated from the C++)
  | [["errfn"], ts, [b], bl, [ne]] =>
    match nats ts, b.toNat?, nums bl, parseDy (α := α) ne with
    | some (t :: order), some b, some bl, some ne =>
      let v := errorEval (fun i => bl.getD i 0) ne
        (Gen.ParRegions.Site1.start b t) (Gen.ParRegions.Site1.stop b t) order
      s!"V={Num.shw v}"
    | _, _, _, _ => "bad-op"
  | [["regularized"], [v, s, r]] =>
    match parseDy (α := α) v, parseDy (α := α) s, parseDy (α := α) r with
    | some v, some s, some r => s!"V={Num.shw (regularizedEval v s r)}"
    | _, _, _ => "bad-op"
  | [["onenorm"], xs] => match nums xs with
    | some x => s!"V={Num.shw (oneNorm x)} G={showVec (x.map sign)}"
    | none => "bad-op"
  | [["twonorm"], xs] => match nums xs with
    | some x => s!"V={Num.shw (twoNorm x)} G={showVec x}"
    | none => "bad-op"
  | _ => "bad-op"

partial def loop (h : IO.FS.Stream) (out : IO.FS.Stream) (float : Bool) : IO Unit := do
  let line ← h.getLine
  if line.isEmpty then return ()
  let secs := sections line
  match secs with
  | [["mode", "float"]] => out.putStrLn "ok"; loop h out true
  | [["mode", "rat"]] => out.putStrLn "ok"; loop h out false
  | _ =>
    out.putStrLn (if float then runOp (α := Float) secs else runOp (α := Rat) secs)
    loop h out float

def main : IO Unit := do loop (← IO.getStdin) (← IO.getStdout) false
