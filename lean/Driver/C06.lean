/-
Line-protocol driver for the C06 models (losses, ErrorFunction, regularizers).
Numbers are dyadic tokens `a/k` (= a / 2^k).  `mode rat|float` selects the
instance the following ops are evaluated with.  Output numbers are printed as
`m e` (= m·2^e, m odd) — the format of `vh::exactDouble` in harness/common.hpp.
-/
import SharkVerif.Model.Loss
import Driver.Util
import SharkVerif.Gen.ParRegions
open SharkVerif SharkVerif.Loss SharkVerif.Scalar

def runOp {α} [Num α] (secs : List (List String)) : String :=
  let nums : List String → Option (List α) := fun ts => ts.mapM parseDy
  let nats (ts : List String) : Option (List Nat) := ts.mapM String.toNat?
  match secs with
  | [[kind, loss], par, dims, labs, prs] =>
    match nats dims, nums par, nums prs with
    | some [_n, m], some par, some prs =>
      let preds := chunk prs m
      let vecLabels : Option (List (List α)) := (nums labs).map fun l => chunk l m
      let clsLabels : Option (List Nat) := nats labs
      let out (v : α) (g : Option (List (List α))) : String :=
        match kind, g with
        | "deriv", some g => s!"V={Num.shw v} G={showMat g}"
        | _, _ => s!"V={Num.shw v}"
      match loss, vecLabels, clsLabels with
      | "squared", some l, _ =>
        if kind == "deriv" then let r := squaredEvalDerivative l preds; out r.1 (some r.2) else out (squaredEval l preds) none
      | "squaredclass", _, some c =>
        if kind == "deriv" then let r := squaredClassEvalDerivative c preds; out r.1 (some r.2) else out (squaredClassEval c preds) none
      | "hinge", _, some c =>
        if kind == "deriv" then let r := hingeEvalDerivative c preds; out r.1 (some r.2) else out (hingeEval c preds) none
      | "sqhinge", _, some c => out (sqHingeEval c preds) none
      | "epshinge", some l, _ =>
        let eps := par.getD 0 0
        if kind == "deriv" then let r := epsHingeEvalDerivative eps l preds; out r.1 (some r.2) else out (epsHingeEval eps l preds) none
      | "sqepshinge", some l, _ =>
        let e2 := sqr (par.getD 0 0)
        if kind == "deriv" then let r := sqEpsHingeEvalDerivative e2 l preds; out r.1 (some r.2) else out (sqEpsHingeEval e2 l preds) none
      | "huber", some l, _ =>
        let d := par.getD 0 1
        if kind == "deriv" then out (huberEval Num.sqrt d l preds) (some (List.zipWith (huberGradRow Num.sqrt d) l preds))
        else out (huberEval Num.sqrt d l preds) none
      | "crossentropy", _, some c =>
        if kind == "deriv" then let r := ceEvalDerivative Num.exp Num.log c preds; out r.1 (some r.2)
        else out (ceEval Num.exp Num.log c preds) none
      | "zeroone", _, some c => out (zeroOneEval (par.getD 0 0) c preds) none
      | _, _, _ => "bad-op"
    | _, _, _ => "bad-op"
  -- errfn | T order… | B | batch losses | numElements       (thread ranges generated from the C++)
  | [["errfn"], ts, [b], bl, [ne]] =>
    match nats ts, b.toNat?, nums bl, parseDy (α := α) ne with
    | some (t :: order), some b, some bl, some ne =>
      let v := errorEval (fun i => bl.getD i 0) ne
        (Gen.ParRegions.Site1.start b t) (Gen.ParRegions.Site1.stop b t) order
      s!"V={Num.shw v}"
    | _, _, _, _ => "bad-op"
  | [["regularized"], [v, s, r]] =>
    match parseDy (α := α) v, parseDy (α := α) s, parseDy (α := α) r with
    | some v, some s, some r => s!"V={Num.shw (regularizedEval v s r)}"
    | _, _, _ => "bad-op"
  | [["onenorm"], xs, ms] => match nums xs, nums ms with
    | some x, some m => s!"V={Num.shw (oneNormMasked m x)} G={showVec (List.zipWith (fun xi mi => sign xi * mi) x m)}"
    | _, _ => "bad-op"
  | [["twonorm"], xs, ms] => match nums xs, nums ms with
    | some x, some m => s!"V={Num.shw (twoNormMasked m x)} G={showVec (List.zipWith (fun xi mi => mi * xi) x m)}"
    | _, _ => "bad-op"
  | [["onenorm"], xs] => match nums xs with
    | some x => s!"V={Num.shw (oneNorm x)} G={showVec (x.map sign)}"
    | none => "bad-op"
  | [["twonorm"], xs] => match nums xs with
    | some x => s!"V={Num.shw (twoNorm x)} G={showVec x}"
    | none => "bad-op"
  | _ => "bad-op"

partial def loop (h : IO.FS.Stream) (out : IO.FS.Stream) (float : Bool) : IO Unit := do
  let line ← h.getLine
  if line.isEmpty then return ()
  let secs := sections line
  match secs with
  | [["mode", "float"]] => out.putStrLn "ok"; loop h out true
  | [["mode", "rat"]] => out.putStrLn "ok"; loop h out false
  | _ =>
    out.putStrLn (if float then runOp (α := Float) secs else runOp (α := Rat) secs)
    loop h out float

def main : IO Unit := do loop (← IO.getStdin) (← IO.getStdout) false
