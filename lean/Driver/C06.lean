/-
Line-protocol driver for the C06 models (losses, ErrorFunction, regularizers).
Numbers are dyadic tokens `a/k` (= a / 2^k).  `mode rat|float` selects the
instance the following ops are evaluated with.  Output numbers are printed as
`m e` (= m·2^e, m odd) — the format of `vh::exactDouble` in harness/common.hpp.
-/
import SharkVerif.Model.Loss
import SharkVerif.Model.Loss2
import SharkVerif.Model.ErrFn
import SharkVerif.Model.LossOut
import SharkVerif.Model.ErrFnHist
import Driver.Util
import SharkVerif.Gen.ParRegions
open SharkVerif SharkVerif.Loss SharkVerif.Scalar SharkVerif.Models SharkVerif.ErrFn SharkVerif.LossOut SharkVerif.ErrFnHist

def parseAct6 : String → Option Act
  | "linear" => some .linear | "rectifier" => some .rectifier | _ => none

def mkDense6 {α} [Num α] (act : Act) (hasB : Bool) (nIn nOut : Nat) (p : List α) : Dense α :=
  let m : Dense α := { nIn := nIn, nOut := nOut, W := fun _ _ => 0, hasB := hasB, b := fun _ => 0, act := act }
  m.setParams p

/-- `nIn act:hasB:nOut …` with the parameters of all layers in layer order; every layer optimised -/
def buildNet {α} [Num α] (spec : List String) (p : List α) : Option (ModelFn α × Nat) :=
  match spec with
  | [] => none
  | nIn :: layers =>
    match nIn.toNat? with
    | none => none
    | some nIn =>
      let rec go (ls : List String) (cur : Nat) (p : List α) (acc : Chain α) : Option (Chain α × Nat) :=
        match ls with
        | [] => some (acc.reverse, cur)
        | l :: rest =>
          match l.splitOn ":" with
          | [act, hb, nOut] =>
            match parseAct6 act, hb.toNat?, nOut.toNat? with
            | some act, some hb, some nOut =>
              let np := nOut * cur + (if hb == 1 then nOut else 0)
              go rest nOut (p.drop np) ((Layer.dense (mkDense6 act (hb == 1) cur nOut (p.take np)), true) :: acc)
            | _, _, _ => none
          | _ => none
      match go layers nIn p [] with
      | some (ch, nOut) => some (ofChain Num.tanh Num.exp ch nOut, nIn)
      | none => none

def showRes {α} [Num α] (deriv : Bool) (r : α × List α) : String :=
  if deriv then s!"V={Num.shw r.1} G={showVec r.2}" else s!"V={Num.shw r.1}"

/-- batches of the data set from the flat op-line data -/
def mkBatches {α L} [Num α] (nIn : Nat) (sizes : List Nat) (xs : List α) (labelsOf : Nat → Nat → List L) (ws : List α) :
    Nat → Batch α L :=
  let xa := xs.toArray
  let starts := sizes.foldl (fun (acc : List Nat × Nat) s => (acc.1 ++ [acc.2], acc.2 + s)) ([], 0)
  fun b =>
    let pos := starts.1.getD b 0
    let n := sizes.getD b 0
    { n := n, X := fun i j => xa.getD ((pos + i) * nIn + j) 0, labels := labelsOf pos n,
      weights := (ws.drop pos).take n }

def runEf {α L} [Num α] (deriv : Bool) (loss : LossFn α L) (f : ModelFn α) (nIn : Nat) (tv : List Nat) (sizes : List Nat)
    (xs : List α) (labelsOf : Nat → Nat → List L) (params : List α) (extra : List String) : String :=
  let B := sizes.length
  let threads := tv.getD 0 1
  let order := tv.drop 1
  match extra with
  | ["none"] =>
    let bs := mkBatches nIn sizes xs labelsOf []
    if deriv then showRes true (evalDerivative f loss bs B threads order) else showRes false (eval f loss bs B threads order, [])
  | "w" :: wts =>
    match wts.mapM (parseDy (α := α)) with
    | some ws =>
      let bs := mkBatches nIn sizes xs labelsOf ws
      if deriv then showRes true (wEvalDerivative f loss bs B order) else showRes false (wEval f loss bs B order, [])
    | none => "bad-op"
  | ["mini", _] =>
    let bs := mkBatches nIn sizes xs labelsOf []
    " # ".intercalate ((List.range B).map fun b =>
      if deriv then showRes true (miniEvalDerivative f loss bs b) else showRes false (miniEval f loss bs b, []))
  | "reg" :: kind :: strength :: mask =>
    match parseDy (α := α) strength, mask.mapM (parseDy (α := α)) with
    | some st, some msk =>
      let bs := mkBatches nIn sizes xs labelsOf []
      let regV : α := if kind == "one" then (if msk.isEmpty then oneNorm params else oneNormMasked msk params)
                      else (if msk.isEmpty then twoNorm params else twoNormMasked msk params)
      let regG : List α := if kind == "one" then (if msk.isEmpty then params.map sign else List.zipWith (fun xi mi => sign xi * mi) params msk)
                           else (if msk.isEmpty then params else List.zipWith (fun xi mi => mi * xi) params msk)
      if deriv then showRes true (regEvalDerivative (evalDerivative f loss bs B threads order) st (regV, regG))
      else showRes false (regEval (eval f loss bs B threads order) st regV, [])
    | _, _ => "bad-op"
  | ["comb", c0, c1, c2] =>
    match parseDy (α := α) c0, parseDy (α := α) c1, parseDy (α := α) c2 with
    | some c0, some c1, some c2 =>
      let bs := mkBatches nIn sizes xs labelsOf []
      if deriv then
        showRes true (combinedEvalDerivative [(c0, evalDerivative f loss bs B threads order), (c1, (twoNorm params, params)), (c2, (oneNorm params, params.map sign))])
      else showRes false (combinedEval [(c0, eval f loss bs B threads order), (c1, twoNorm params), (c2, oneNorm params)], [])
    | _, _, _ => "bad-op"
  | _ => "bad-op"

def showSeqGrad {α} [Num α] (g : List (List (List α))) : String :=
  "/".intercalate (g.map fun s => ";".intercalate (s.map showVec))

/-- split a flat list into consecutive pieces of the given lengths -/
def splitBy {β} (lens : List Nat) (l : List β) : List (List β) :=
  (lens.foldl (fun (acc : List (List β) × List β) n => (acc.1 ++ [acc.2.take n], acc.2.drop n)) ([], l)).1

/-! ### object re-use: the shared gradient object (`gset` / `rderiv`), the shared sequence gradient (`sset` / `rseq`) -/
structure Shared (α : Type) where
  g : OutMat α := OutMat.empty
  s : List (List (List α)) := []

def runReuse {α} [Num α] (secs : List (List String)) (st : Shared α) : Option (String × Shared α) :=
  let nums : List String → Option (List α) := fun ts => ts.mapM parseDy
  let nats (ts : List String) : Option (List Nat) := ts.mapM String.toNat?
  match secs with
  | [["gset"], dims, vals] =>
    match nats dims, nums vals with
    | some [n, m], some v => if v.length == n * m then some ("ok", { st with g := ⟨n, m, v⟩ }) else some ("bad-op", st)
    | _, _ => some ("bad-op", st)
  | [["sset"], [d], lens, [fill]] =>
    match d.toNat?, nats lens, parseDy (α := α) fill with
    | some d, some lens, some f => some ("ok", { st with s := lens.map fun k => List.replicate k (List.replicate d f) })
    | _, _, _ => some ("bad-op", st)
  | [["rseq"], [ig, d], lens, labs, prs] =>
    match ig.toNat?, d.toNat?, nats lens, nums labs, nums prs with
    | some ig, some d, some lens, some l, some p =>
      let L := splitBy lens (chunk l d)
      let P := splitBy lens (chunk p d)
      if (lens.any fun n => n ≤ ig) then some ("exception", st) else
      let r := seqInto ig st.s L P
      some (s!"V={Num.shw r.1} G={showSeqGrad r.2}", { st with s := r.2 })
    | _, _, _, _, _ => some ("bad-op", st)
  | [["rderiv", loss], par, dims, labs, prs] =>
    match nats dims, nums par, nums prs with
    | some [_n, m], some par, some prs =>
      let preds := chunk prs m
      let vecLabels : Option (List (List α)) := (nums labs).map fun l => chunk l m
      let clsLabels : Option (List Nat) := nats labs
      let ol : Option (OutLoss α) :=
        match loss, vecLabels, clsLabels with
        | "squared", some l, _ => some (squaredOut l preds)
        | "squaredclass", _, some c => some (squaredClassOut c preds)
        | "hinge", _, some c => some (hingeOut c preds)
        | "sqhinge", _, some c => some (sqHingeOut c preds)
        | "epshinge", some l, _ => some (epsHingeOut (par.getD 0 0) l preds)
        | "sqepshinge", some l, _ => some (sqEpsHingeOut (sqr (par.getD 0 0)) l preds)
        | "huber", some l, _ => some (huberOut Num.sqrt (par.getD 0 1) l preds)
        | "crossentropy", _, some c => some (crossEntropyOut Num.exp Num.log c preds)
        | "crossentropysoft", some l, _ => some (crossEntropySoftOut Num.exp Num.log l preds)
        | _, _, _ => none
      match ol with
      | some ol =>
        let r := ol.into st.g
        some (s!"V={Num.shw r.1} S={ol.n}x{ol.m} G={showMat (ol.rowsInto st.g)}", { st with g := r.2 })
      | none => some ("bad-op", st)
    | _, _, _ => some ("bad-op", st)
  | _ => none

/-! ### `efh`: call histories on error functions sharing one model object -/
def splitSemi (ts : List String) : List (List String) :=
  if ts.isEmpty then [] else
  let r := ts.foldl (fun (acc : List (List String) × List String) t =>
    if t == ";" then (acc.1 ++ [acc.2], []) else (acc.1, acc.2 ++ [t])) ([], [])
  r.1 ++ [r.2]

def dummyModel {α} [Num α] : ModelFn α := { m := 0, np := 0, evalB := fun _ _ _ => 0, wpd := fun _ _ _ => [] }

def regFn {α} [Num α] (kind : String) (msk : List α) (params : List α) : α × List α :=
  if kind == "one" then
    (if msk.isEmpty then oneNorm params else oneNormMasked msk params,
     if msk.isEmpty then params.map sign else List.zipWith (fun xi mi => sign xi * mi) params msk)
  else
    (if msk.isEmpty then twoNorm params else twoNormMasked msk params,
     if msk.isEmpty then params else List.zipWith (fun xi mi => mi * xi) params msk)

def runEfh {α L} [Num α] (lossOf : String → Option α → Option (LossFn α L)) (labelsOf : Nat → Nat → List L)
    (spec : List String) (tv pts xs parts ws regv objs steps : List String) : String :=
  let nums : List String → Option (List α) := fun ts => ts.mapM parseDy
  let nats (ts : List String) : Option (List Nat) := ts.mapM String.toNat?
  match nats tv, nums pts, nums xs, (splitSemi parts).mapM nats, nums ws, nums regv with
  | some [T], some pts, some xs, some parts, some ws, some (strength :: msk) =>
    match buildNet spec ([] : List α) with
    | none => "bad-op"
    | some (f0, nIn) =>
      let np := f0.np
      let points := chunk pts np
      let mk : List α → ModelFn α := fun p => match buildNet spec p with | some (f, _) => f | none => dummyModel
      let objs? : Option (List (Obj α L)) := (splitSemi objs).mapM fun t =>
        match t with
        | [fl, loss, par, part, rk] =>
          let par? : Option α := if par == "-" then none else parseDy par
          match (match fl with | "plain" => some Flavour.plain | "w" => some Flavour.weighted | "mini" => some Flavour.mini | _ => none),
                lossOf loss par?, part.toNat? with
          | some fl, some lo, some part =>
            let sizes := parts.getD part []
            some { flavour := fl, loss := lo, B := sizes.length,
                   batches := mkBatches nIn sizes xs labelsOf (if fl == Flavour.weighted then ws else []),
                   reg := if rk == "none" then none else some (strength, regFn rk msk) }
          | _, _, _ => none
        | _ => none
      let steps? : Option (List (Step α)) := (splitSemi steps).mapM fun t =>
        match t with
        | ["e", o, pt] => do let o ← o.toNat?; let pt ← pt.toNat?; pure (Step.eval o (points.getD pt []))
        | ["d", o, pt] => do let o ← o.toNat?; let pt ← pt.toNat?; pure (Step.deriv o (points.getD pt []))
        | ["set", pt] => do let pt ← pt.toNat?; pure (Step.setModel (points.getD pt []))
        | ["copy", o] => do let o ← o.toNat?; pure (Step.copy o)
        | ["asg", a, b] => do let a ← a.toNat?; let b ← b.toNat?; pure (Step.assign a b)
        | ["init", o] => do let o ← o.toNat?; pure (Step.init o)
        | ["thr", t] => do let t ← t.toNat?; pure (Step.threads t)
        | _ => none
      match objs?, steps? with
      | some objs, some steps =>
        let res := run mk { cur := List.replicate np 0, objs := objs, threads := T } steps
        let shown := (steps.zip res).filterMap fun (s, r) =>
          match s, r with
          | Step.eval _ _, some cands => some ("{" ++ " # ".intercalate (cands.map fun c => showRes false c) ++ "}")
          | Step.deriv _ _, some cands => some ("{" ++ " # ".intercalate (cands.map fun c => showRes true c) ++ "}")
          | _, _ => none
        if shown.isEmpty then "none" else " ## ".intercalate shown
      | _, _ => "bad-op"
  | _, _, _, _, _, _ => "bad-op"

def runEfhOp {α} [Num α] (secs : List (List String)) : Option String :=
  match secs with
  | [["efcopyprobe"]] => some "copy-initialises-all-members"
  | [["efh", fam], spec, tv, pts, xs, labs, parts, ws, regv, objs, steps] =>
    let nums : List String → Option (List α) := fun ts => ts.mapM parseDy
    match buildNet spec ([] : List α) with
    | none => some "bad-op"
    | some (f0, _) =>
      let m := f0.m
      if fam == "vec" then
        match nums labs with
        | some l =>
          let rows := chunk l m
          let lossOf : String → Option α → Option (LossFn α (List α)) := fun name par =>
            match name with
            | "squared" => some squaredLoss
            | "epshinge" => some (epsHingeLoss (par.getD 0))
            | "sqepshinge" => some (sqEpsHingeLoss (sqr (par.getD 0)))
            | _ => none
          some (runEfh lossOf (fun pos n => (rows.drop pos).take n) spec tv pts xs parts ws regv objs steps)
        | none => some "bad-op"
      else
        match labs.mapM String.toNat? with
        | some l =>
          let lossOf : String → Option α → Option (LossFn α Nat) := fun name _ =>
            match name with
            | "squaredclass" => some squaredClassLoss
            | "hinge" => some hingeLoss
            | "sqhinge" => some sqHingeLoss
            | _ => none
          some (runEfh lossOf (fun pos n => (l.drop pos).take n) spec tv pts xs parts ws regv objs steps)
        | none => some "bad-op"
  | _ => none

def runOp2 {α} [Num α] (secs : List (List String)) : Option String :=
  let nums : List String → Option (List α) := fun ts => ts.mapM parseDy
  let nats (ts : List String) : Option (List Nat) := ts.mapM String.toNat?
  match secs with
  | [["hess", "crossentropy"], _, dims, [lab], prs] =>
    match nats dims, lab.toNat?, nums prs with
    | some [_, _], some c, some p =>
      let r := ceHessian (α := α) Num.exp Num.log c p
      some s!"V={Num.shw r.1} G={showVec r.2.1} H={showMat r.2.2}"
    | _, _, _ => some "bad-op"
  | [[_, "zeroonelabel"], _, _, labs, prs] =>
    match nats labs, nats prs with
    | some l, some p => some s!"V={Num.shw (zeroOneLabelEval (α := α) l p)}"
    | _, _ => some "bad-op"
  | [[_, "discrete"], par, dims, labs, prs] =>
    match nums par, nats dims, nats labs, nats prs with
    | some c, some [_, k], some l, some p =>
      let ca := c.toArray
      some s!"V={Num.shw (discreteEval (fun a b => ca.getD (a * k + b) 0) l p)}"
    | _, _, _, _ => some "bad-op"
  | [[_, "balanced"], _, dims, labs, prs] =>
    match nats dims, nats labs, nats prs with
    | some [_, k], some l, some p => some s!"V={Num.shw (discreteEval (balancedCost (α := α) k l) l p)}"
    | _, _, _ => some "bad-op"
  | [["seq", kind], [ig, d], lens, labs, prs] =>
    match ig.toNat?, d.toNat?, nats lens, nums labs, nums prs with
    | some ig, some d, some lens, some l, some p =>
      let L := splitBy lens (chunk l d)
      let P := splitBy lens (chunk p d)
      if (lens.any fun n => n ≤ ig) then some "exception" else
      if kind == "deriv" then let r := squaredSeqEvalDerivative ig L P; some s!"V={Num.shw r.1} G={showSeqGrad r.2}"
      else some s!"V={Num.shw (squaredSeqEval ig L P)}"
    | _, _, _, _, _ => some "bad-op"
  | [["ef", kind], loss :: par, spec, tv, ps, sizes, xs, labs, extra] =>
    match nats tv, nums ps, nats sizes, nums xs, nums par with
    | some tv, some params, some sizes, some xs, some par =>
      match buildNet spec params with
      | some (f, nIn) =>
        let deriv := kind == "deriv"
        let m := f.m
        let vecL : Option (Nat → Nat → List (List α)) := (nums labs).map fun l =>
          let rows := chunk l m; fun pos n => (rows.drop pos).take n
        let clsL : Option (Nat → Nat → List Nat) := (nats labs).map fun l => fun pos n => (l.drop pos).take n
        match loss, vecL, clsL with
        | "squared", some lo, _ => some (runEf deriv squaredLoss f nIn tv sizes xs lo params extra)
        | "epshinge", some lo, _ => some (runEf deriv (epsHingeLoss (par.getD 0 0)) f nIn tv sizes xs lo params extra)
        | "sqepshinge", some lo, _ => some (runEf deriv (sqEpsHingeLoss (sqr (par.getD 0 0))) f nIn tv sizes xs lo params extra)
        | "squaredclass", _, some lo => some (runEf deriv squaredClassLoss f nIn tv sizes xs lo params extra)
        | "hinge", _, some lo => some (runEf deriv hingeLoss f nIn tv sizes xs lo params extra)
        | "sqhinge", _, some lo => some (runEf deriv sqHingeLoss f nIn tv sizes xs lo params extra)
        | _, _, _ => some "bad-op"
      | none => some "bad-op"
    | _, _, _, _, _ => some "bad-op"
  | [["cost", loss], par, tv, sizes, [m], labs, prs] =>
    match nums par, nats tv, nats sizes, m.toNat?, nums prs with
    | some par, some tv, some sizes, some m, some p =>
      let rows := chunk p m
      let n := sizes.sum
      let order := tv.drop 1
      let pieces := splitBy sizes rows
      let ne : α := Scalar.ofNat n
      let vec : Option (List (List (List α))) := (nums labs).map fun l => splitBy sizes (chunk l m)
      let cls : Option (List (List Nat)) := (nats labs).map fun l => splitBy sizes l
      match loss, vec, cls with
      | "squared", some lb, _ => some s!"V={Num.shw (costEval (fun b => squaredEval (lb.getD b []) (pieces.getD b [])) order ne)}"
      | "epshinge", some lb, _ => some s!"V={Num.shw (costEval (fun b => epsHingeEval (par.getD 0 0) (lb.getD b []) (pieces.getD b [])) order ne)}"
      | "hinge", _, some lb => some s!"V={Num.shw (costEval (fun b => hingeEval (lb.getD b []) (pieces.getD b [])) order ne)}"
      | "zeroone", _, some lb => some s!"V={Num.shw (costEval (fun b => zeroOneEval (par.getD 0 0) (lb.getD b []) (pieces.getD b [])) order ne)}"
      | _, _, _ => some "bad-op"
    | _, _, _, _, _ => some "bad-op"
  | [[op, inv], _, labs, scs] =>
    if op == "auc" || op == "wmw" then
      match nats labs, nums scs with
      | some l, some sc =>
        let elems := List.zipWith (fun s c => (s, c)) sc l
        if op == "auc" then some s!"V={Num.shw (negativeAUC (α := α) (inv == "1") elems)}"
        else some s!"V={Num.shw (negativeWMW (α := α) (inv == "1") elems)}"
      | _, _ => some "bad-op"
    else none
  | [["zow"], [thr], sizes, [m], labs, prs, wts] =>
    match parseDy (α := α) thr, nats sizes, m.toNat?, nats labs, nums prs, nums wts with
    | some thr, some sizes, some m, some l, some p, some w =>
      let elems := List.zipWith (fun c r => (c, r)) l (chunk p m)
      some s!"V={Num.shw (zeroOneWeightedEval thr (splitBy sizes elems) w)}"
    | _, _, _, _, _, _ => some "bad-op"
  | _ => none

/-- NegativeLogLikelihood (float only: `minProb = 1e-100`) -/
def runNll (secs : List (List String)) : Option String :=
  match secs with
  | [["nll", kind], spec, _, ps, sizes, xs] =>
    match ps.mapM (parseDy (α := Float)), sizes.mapM String.toNat?, xs.mapM (parseDy (α := Float)) with
    | some params, some sizes, some xs =>
      match buildNet spec params with
      | some (f, nIn) =>
        let bs : Nat → Batch Float Unit := mkBatches nIn sizes xs (fun _ _ => []) []
        let B := sizes.length
        if kind == "deriv" then some (showRes true (nllEvalDerivative Float.log 1e-100 f bs B 1 [0]))
        else some (showRes false (nllEval Float.log 1e-100 f bs B (List.range B), []))
      | none => some "bad-op"
    | _, _, _ => some "bad-op"
  | _ => none

def runOp {α} [Num α] (secs : List (List String)) : String :=
  let nums : List String → Option (List α) := fun ts => ts.mapM parseDy
  let nats (ts : List String) : Option (List Nat) := ts.mapM String.toNat?
  match secs with
  | [[kind, loss], par, dims, labs, prs] =>
    match nats dims, nums par, nums prs with
    | some [_n, m], some par, some prs =>
      let preds := chunk prs m
      let vecLabels : Option (List (List α)) := (nums labs).map fun l => chunk l m
      let clsLabels : Option (List Nat) := nats labs
      let out (v : α) (g : Option (List (List α))) : String :=
        match kind, g with
        | "deriv", some g => s!"V={Num.shw v} G={showMat g}"
        | _, _ => s!"V={Num.shw v}"
      match loss, vecLabels, clsLabels with
      | "squared", some l, _ =>
        if kind == "deriv" then let r := squaredEvalDerivative l preds; out r.1 (some r.2) else out (squaredEval l preds) none
      | "squaredclass", _, some c =>
        if kind == "deriv" then let r := squaredClassEvalDerivative c preds; out r.1 (some r.2) else out (squaredClassEval c preds) none
      | "hinge", _, some c =>
        if kind == "deriv" then let r := hingeEvalDerivative c preds; out r.1 (some r.2) else out (hingeEval c preds) none
      | "sqhinge", _, some c =>
        if kind == "deriv" then let r := sqHingeEvalDerivative c preds; out r.1 (some r.2) else out (sqHingeEval c preds) none
      | "absolute", some l, _ => out (absoluteEval Num.sqrt l preds) none
      | "crossentropysoft", some l, _ =>
        if kind == "deriv" then let r := ceSoftEvalDerivative Num.exp Num.log l preds; out r.1 (some r.2)
        else out (ceSoftEval Num.exp Num.log l preds) none
      | "epshinge", some l, _ =>
        let eps := par.getD 0 0
        if kind == "deriv" then let r := epsHingeEvalDerivative eps l preds; out r.1 (some r.2) else out (epsHingeEval eps l preds) none
      | "sqepshinge", some l, _ =>
        let e2 := sqr (par.getD 0 0)
        if kind == "deriv" then let r := sqEpsHingeEvalDerivative e2 l preds; out r.1 (some r.2) else out (sqEpsHingeEval e2 l preds) none
      | "huber", some l, _ =>
        let d := par.getD 0 1
        if kind == "deriv" then out (huberEval Num.sqrt d l preds) (some (List.zipWith (huberGradRow Num.sqrt d) l preds))
        else out (huberEval Num.sqrt d l preds) none
      | "crossentropy", _, some c =>
        if kind == "deriv" then let r := ceEvalDerivative Num.exp Num.log c preds; out r.1 (some r.2)
        else out (ceEval Num.exp Num.log c preds) none
      | "zeroone", _, some c => out (zeroOneEval (par.getD 0 0) c preds) none
      | _, _, _ => "bad-op"
    | _, _, _ => "bad-op"
  -- errfn | T order… | B | batch losses | numElements       (thread ranges generated from the C++)
  | [["errfn"], ts, [b], bl, [ne]] =>
    match nats ts, b.toNat?, nums bl, parseDy (α := α) ne with
    | some (t :: order), some b, some bl, some ne =>
      let v := errorEval (fun i => bl.getD i 0) ne
        (Gen.ParRegions.Site1.start b t) (Gen.ParRegions.Site1.stop b t) order
      s!"V={Num.shw v}"
    | _, _, _, _ => "bad-op"
  | [["regularized"], [v, s, r]] =>
    match parseDy (α := α) v, parseDy (α := α) s, parseDy (α := α) r with
    | some v, some s, some r => s!"V={Num.shw (regularizedEval v s r)}"
    | _, _, _ => "bad-op"
  | [["onenorm"], xs, ms] => match nums xs, nums ms with
    | some x, some m => s!"V={Num.shw (oneNormMasked m x)} G={showVec (List.zipWith (fun xi mi => sign xi * mi) x m)}"
    | _, _ => "bad-op"
  | [["twonorm"], xs, ms] => match nums xs, nums ms with
    | some x, some m => s!"V={Num.shw (twoNormMasked m x)} G={showVec (List.zipWith (fun xi mi => mi * xi) x m)}"
    | _, _ => "bad-op"
  | [["onenorm"], xs] => match nums xs with
    | some x => s!"V={Num.shw (oneNorm x)} G={showVec (x.map sign)}"
    | none => "bad-op"
  | [["twonorm"], xs] => match nums xs with
    | some x => s!"V={Num.shw (twoNorm x)} G={showVec x}"
    | none => "bad-op"
  | _ => "bad-op"

structure St where
  float : Bool := false
  shF : Shared Float := {}
  shR : Shared Rat := {}

partial def loop (h : IO.FS.Stream) (out : IO.FS.Stream) (st : St) : IO Unit := do
  let line ← h.getLine
  if line.isEmpty then return ()
  let secs := sections line
  match secs with
  | [["mode", "float"]] => out.putStrLn "ok"; loop h out { st with float := true }
  | [["mode", "rat"]] => out.putStrLn "ok"; loop h out { st with float := false }
  | _ =>
    if st.float then
      match runReuse (α := Float) secs st.shF with
      | some (r, sh) => out.putStrLn r; loop h out { st with shF := sh }
      | none =>
        let r : String :=
          match runNll secs with
          | some r => r
          | none => match runEfhOp (α := Float) secs with
            | some r => r
            | none => match runOp2 (α := Float) secs with
              | some r => r
              | none => runOp (α := Float) secs
        out.putStrLn r
        loop h out st
    else
      match runReuse (α := Rat) secs st.shR with
      | some (r, sh) => out.putStrLn r; loop h out { st with shR := sh }
      | none =>
        let r : String :=
          match runEfhOp (α := Rat) secs with
          | some r => r
          | none => match runOp2 (α := Rat) secs with
            | some r => r
            | none => runOp (α := Rat) secs
        out.putStrLn r
        loop h out st

def main : IO Unit := do loop (← IO.getStdin) (← IO.getStdout) {}
