/-
Kernel ops of the C01 driver: the blocked kernel models of `Model/RemoraKernels.lean` run with the
constants regenerated from the C++ (`Gen/RemoraKernelConsts.lean`) or with the constants given on
the op line.  Same line protocol as `harness/c01k.cpp`, which calls the real kernels.

  kconsts                                        the generated constants
  kpack A <MR> <NR> <mc> <kc> <seed>             packed buffer of pack_A_dense
  kpack B <MR> <NR> <kc> <nc> <seed>             packed buffer of pack_B_dense
  kmgemm <MR> <NR> <mc> <nc> <kc> <alpha> <seed> <R> <Cc> <r0> <c0>
                                                 mgemm on the tile at (r0,c0) of an R x Cc matrix
  kgemm <d|f|l> <o3> <M> <N> <K> <alpha> <seed>  kernels::gemm, value type double/float/long double,
                                                 o3 = orientations of target, e1, e2 (r/c each)
  ktassign <set|plus|minus|times> <n1> <n2> <seed>   transposing blocked assignment
  kfoldrows <sum|max|min> <n1> <n2> <seed>       column-major fold_rows kernel
  kmixed <what> <m> <n> <k> <seed>               expression mixing float / double / int value types
Operand data are a fixed function of (seed, index), computed identically by the harness.
-/
import SharkVerif.Model.RemoraKernels
import SharkVerif.Gen.RemoraKernelConsts
open SharkVerif.Remora
open SharkVerif.Gen.RemoraKernelConsts

namespace C01Kern

/-- operand data: small integers in [-5, 5] -/
def val (seed idx : Nat) : Rat :=
  (((seed * 7 + idx * 13 + (idx / 5) * 3) % 11 : Nat) : Int) - 5

def showRat (r : Rat) : String :=
  if r.den = 1 then toString r.num else toString r.num ++ "/" ++ toString r.den
def showVec (l : List Rat) : String := "[" ++ ",".intercalate (l.map showRat) ++ "]"
def showMat (n1 n2 : Nat) (m : Nat → Nat → Rat) : String :=
  s!"{n1}x{n2}" ++ showVec ((List.range (n1 * n2)).map fun a => m (a / n2) (a % n2))

def showBlock (b : GemmBlock) : String := s!"{b.mr},{b.nr},{b.mc},{b.kc},{b.nc}"

def rmin (x y : Rat) : Rat := if y < x then y else x
def rmax (x y : Rat) : Rat := if x < y then y else x

/-- materialise operand data once (an index function applied per cell would be recomputed per use) -/
def table (n : Nat) (seed : Nat) : Array Rat := ((List.range n).map (val seed)).toArray

def gemmOp (b : GemmBlock) (o3 : String) (M N K : Nat) (alpha : Rat) (seed : Nat) : String :=
  let a1 := table (M * K) seed
  let a2 := table (K * N) (seed + 1)
  let a3 := table (M * N) (seed + 2)
  let e1 : Nat → Nat → Rat := fun i k => a1.getD (i * K + k) 0
  let e2 : Nat → Nat → Rat := fun k j => a2.getD (k * N + j) 0
  let c : Nat → Nat → Rat := fun i j => a3.getD (i * N + j) 0
  if o3.startsWith "r" then
    showMat M N (denseGemm M N K b.mc b.nc b.kc b.mr b.nr alpha e1 e2 c)
  else
    -- column-major target: `gemm(trans(e2), trans(e1), trans(m))`
    let r := denseGemm N M K b.mc b.nc b.kc b.mr b.nr alpha (fun i k => e2 k i) (fun k j => e1 j k) (fun i j => c j i)
    showMat M N (fun i j => r j i)

def step (toks : List String) : Option String :=
  match toks with
  | ["kconsts"] =>
    some s!"d={showBlock gemmDouble} f={showBlock gemmFloat} l={showBlock gemmLongDouble}"
  | ["kpack", "A", mr, _nr, mc, kc, seed] => do
    let mr ← mr.toNat?; let mc ← mc.toNat?; let kc ← kc.toNat?; let seed ← seed.toNat?
    if mr = 0 then none else
    some (showVec ((List.range (packedSize mc kc mr)).map (packA (fun i j => val seed (i * kc + j)) mc kc mr)))
  | ["kpack", "B", _mr, nr, kc, nc, seed] => do
    let nr ← nr.toNat?; let kc ← kc.toNat?; let nc ← nc.toNat?; let seed ← seed.toNat?
    if nr = 0 then none else
    some (showVec ((List.range (packedSize nc kc nr)).map (packB (fun i j => val seed (i * nc + j)) kc nc nr)))
  | ["kmgemm", mr, nr, mc, nc, kc, alpha, seed, r, cc, r0, c0] => do
    let mr ← mr.toNat?; let nr ← nr.toNat?; let mc ← mc.toNat?; let nc ← nc.toNat?; let kc ← kc.toNat?
    let alpha ← alpha.toInt?; let seed ← seed.toNat?; let r ← r.toNat?; let cc ← cc.toNat?
    let r0 ← r0.toNat?; let c0 ← c0.toNat?
    if mr = 0 ∨ nr = 0 ∨ r0 + mc > r ∨ c0 + nc > cc then none else
    let ap := packA (fun i j => val seed (i * kc + j)) mc kc mr
    let bp := packB (fun i j => val (seed + 1) (i * nc + j)) kc nc nr
    let c : Nat → Nat → Rat := fun i j => val (seed + 2) (i * cc + j)
    some (showMat r cc (mgemm mc nc kc mr nr (alpha : Rat) ap bp r0 c0 c))
  | ["kgemm", t, o3, m, n, k, alpha, seed] => do
    let b ← (match t with | "d" => some gemmDouble | "f" => some gemmFloat | "l" => some gemmLongDouble | _ => none)
    let m ← m.toNat?; let n ← n.toNat?; let k ← k.toNat?; let alpha ← alpha.toInt?; let seed ← seed.toNat?
    if o3.length ≠ 3 then none else
    some (gemmOp b o3 m n k (alpha : Rat) seed)
  | ["ktassign", form, n1, n2, seed] => do
    let n1 ← n1.toNat?; let n2 ← n2.toNat?; let seed ← seed.toNat?
    let (f, bs) ← (match form with
      | "set" => some ((fun (_ y : Rat) => y), assignTransBlock)
      | "plus" => some ((fun (x y : Rat) => x + y), assignTransFunctorBlock)
      | "minus" => some ((fun (x y : Rat) => x - y), assignTransFunctorBlock)
      | "times" => some ((fun (x y : Rat) => x * y), assignTransFunctorBlock)
      | _ => none)
    let m : Nat → Nat → Rat := fun i j => val seed (i * n2 + j)
    let e : Nat → Nat → Rat := fun i j => val (seed + 1) (i * n2 + j)
    some (showMat n1 n2 (assignTransBlocked f bs n1 n2 e m))
  | ["kfoldrows", red, n1, n2, seed] => do
    let n1 ← n1.toNat?; let n2 ← n2.toNat?; let seed ← seed.toNat?
    let f ← (match red with
      | "sum" => some (fun (x y : Rat) => x + y) | "max" => some rmax | "min" => some rmin | _ => none)
    let a : Nat → Nat → Rat := fun i j => val seed (i * n2 + j)
    -- `v(start+i) += g(storage[i])` on a target holding val(seed+1); nothing is folded when n2 = 0
    some (showVec ((List.range n1).map fun r =>
      val (seed + 1) r + (if n2 = 0 then 0 else foldRowsBlocked f id a n2 foldRowsBlock r)))
  | ["kmixed", what, m, n, k, seed] => do
    -- the denotation of a mixed value-type expression is the rational element-wise definition (the C++ computes in
    -- std::common_type and converts on assignment; the data keep every intermediate exact in every type)
    let m ← m.toNat?; let n ← n.toNat?; let k ← k.toNat?; let seed ← seed.toNat?
    let vec (len s : Nat) : VExp Rat := .lit len (fun i => val s i)
    let mat (a b s : Nat) : MExp Rat := .lit a b (fun i j => val s (i * b + j))
    match what with
    | "add_df" => some (showVec (VExp.add (vec n seed) (vec n (seed + 1))).toList)
    | "mul_fi_to_d" => some (showVec (VExp.binary (vec n seed) (vec n (seed + 1)) (· * ·)).toList)
    | "plus_i_d" => some (showVec (VExp.add (vec n seed) (vec n (seed + 1))).toList)
    | "gemv_fi_to_d" => some (showVec (VExp.mvprod (mat m n seed) (vec n (seed + 1)) 1).toList)
    | "gemm_fd_plus_d" =>
      let e := MExp.add (mat m n (seed + 2)) (MExp.mmprod (mat m k seed) (mat k n (seed + 1)) 1)
      some (showMat m n e.get)
    | "outer_fi_minus_d" =>
      let e := MExp.add (mat m n (seed + 2)) (MExp.scal (MExp.outer (vec m seed) (vec n (seed + 1))) (-1))
      some (showMat m n e.get)
    | "sum_f" | "sum_i" => some ("R=" ++ showRat (vec n seed).sum)
    | "inner_fd" => some ("R=" ++ showRat (VExp.inner (vec n seed) (vec n (seed + 1))))
    | _ => none
  | _ => none

end C01Kern
