/-
Line-protocol driver for the C11 model (CMA-ES): `coeffs` lines are answered with the Float
instance of `Model/CMA.lean` (compared bit for bit with `CMA::doInit`), `xtrace` lines carry a
trace of the real `CMA::updatePopulation` (state before, evaluated offspring, eigenvectors,
state after) and are re-computed generation by generation with the model (one-step refinement).
-/
import SharkVerif.Model.CMA
import SharkVerif.Model.ES
open SharkVerif.Opt SharkVerif.Opt.CMA

def hexVal (c : Char) : Option Nat :=
  if '0' ≤ c ∧ c ≤ '9' then some (c.toNat - '0'.toNat)
  else if 'a' ≤ c ∧ c ≤ 'f' then some (c.toNat - 'a'.toNat + 10)
  else none

def parseBits (t : String) : Option UInt64 :=
  match t.toList with
  | 'x' :: ds =>
    if ds.length != 16 then none else
    ds.foldlM (fun (acc : Nat) c => (hexVal c).map fun v => acc * 16 + v) 0 |>.map (·.toUInt64)
  | _ => none

def hexDigit (n : Nat) : Char := if n < 10 then Char.ofNat (48 + n) else Char.ofNat (87 + n)
def hexF (x : Float) : String :=
  let b := x.toBits.toNat
  "x" ++ String.ofList ((List.range 16).map fun i => hexDigit ((b >>> (4 * (15 - i))) % 16))

def floats (t : String) : Option (List Float) :=
  if t.isEmpty then some [] else (t.splitOn ",").mapM fun s => (parseBits s).map Float.ofBits

def FF : Fns Float := { log := Float.log, sqrt := Float.sqrt, exp := Float.exp, pow := Float.pow }

/-- `CMA::suggestLambda`: max(5, min(4 + floor(3 ln n), n)) -/
def suggestLambda (n : Nat) : Nat :=
  let l := (4.0 + Float.floor (3.0 * Float.log n.toFloat)).toUInt64.toNat
  Nat.max 5 (Nat.min l n)

def chunk (n : Nat) (l : List Float) : List (List Float) :=
  (List.range (l.length / n)).map fun i => (l.drop (i * n)).take n

def cmpNum (scale a b : Float) : Nat :=
  if a.toBits == b.toBits || (a == 0 && b == 0) then 0
  else if (a - b).abs ≤ 1e-9 * (1e-300 + scale) then 1 else 2

def cmpVec (a b : List Float) : Nat :=
  if a.length != b.length then 2 else
  let scale := (a ++ b).foldl (fun m x => if x.abs > m then x.abs else m) 0
  (List.zipWith (cmpNum scale) a b).foldl Nat.max 0

def field (fs : List (String × String)) (k : String) : String :=
  match fs.find? (·.1 == k) with | some (_, v) => v | none => ""

def parseFields (s : String) : List (String × String) :=
  ((s.splitOn " ").filter (· ≠ "")).filterMap fun kv =>
    match kv.splitOn "=" with
    | [k, v] => some (k, v)
    | _ => none

/-- check one generation; returns (worst comparison code, name of the worst field) -/
def checkGen (n mu rec : Nat) (lb : Float) (before after : String) : Option (Nat × String) := do
  let fb := parseFields before
  let fa := parseFields after
  let sc := (field fb "S").splitOn ","
  let sigma ← (parseBits (sc.headD "")).map Float.ofBits
  let counter ← (sc.getD 1 "").toNat?
  let mean ← floats (field fb "M"); let pc ← floats (field fb "PC"); let ps ← floats (field fb "PS")
  let C ← floats (field fb "C"); let B ← floats (field fb "B")
  let Fv ← floats (field fb "F"); let X ← floats (field fb "X"); let Z ← floats (field fb "Z")
  let xs := chunk n X; let zs := chunk n Z
  let off : List (Indiv Float) := (List.zip Fv (List.zip xs zs)).map fun (f, x, z) => { point := x, chrom := z, fitness := f }
  let sel := select off mu
  let c := doInitCoeffs FF n mu rec
  let d : Dist Float := { sigma := sigma, mean := mean, pc := pc, ps := ps, C := chunk n C, counter := counter }
  let d' := update FF c n d sel (chunk n B)
  let ev ← (parseBits (field fa "EV")).map Float.ofBits
  let s' := clampSigma FF lb d'.sigma ev
  let aS ← (parseBits (field fa "S")).map Float.ofBits
  let aM ← floats (field fa "M"); let aPC ← floats (field fa "PC"); let aPS ← floats (field fa "PS")
  let aC ← floats (field fa "C"); let aBP ← floats (field fa "BP")
  let aBV ← (parseBits (field fa "BV")).map Float.ofBits
  let best := sel.head?
  let res : List (String × Nat) :=
    [("sigma", cmpNum s'.abs s' aS), ("mean", cmpVec d'.mean aM), ("pc", cmpVec d'.pc aPC), ("ps", cmpVec d'.ps aPS),
     ("C", cmpVec d'.C.flatten aC),
     ("bestPoint", match best with | some b => cmpVec b.point aBP | none => 2),
     ("bestValue", match best with | some b => cmpNum 0 b.fitness aBV | none => 2)]
  let worst := res.foldl (fun (acc : Nat × String) (r : String × Nat) => if r.2 > acc.1 then (r.2, r.1) else acc) (0, "")
  -- `ElitistSelection` uses std::sort, which is not stable beyond 16 elements: with tied fitness values the C++ may
  -- select other individuals than the model's stable sort; such generations are counted, not compared (code 3)
  let sorted := Fv.mergeSort (fun a b => decide (a ≤ b))
  let ties := (List.zip sorted (sorted.drop 1)).any fun (a, b) => a == b
  if worst.1 == 2 && ties && off.length > 16 then some (3, "ties") else some worst

def xtrace (line : String) : String :=
  match line.splitOn " | " with
  | [] => "bad-op"
  | hdr :: gens =>
    let fh := parseFields hdr
    match (field fh "n").toNat?, (field fh "mu").toNat?, (field fh "rec").toNat? with
    | some n, some mu, some rec =>
      -- `CMA::setLowerBound` (after init): the bound of the numerical-stability clamp; 1e-40 unless the header says otherwise
      let lb := match parseBits (field fh "lb") with | some b => Float.ofBits b | none => 1e-40
      let rs := gens.map fun g =>
        match g.splitOn " > " with
        | [b, a] => checkGen n mu rec lb b a
        | _ => none
      match rs.findIdx? (fun r => match r with | none => true | some (c, _) => c == 2) with
      | some i => s!"MISMATCH generation {i} {match rs.getD i none with | some (_, f) => f | none => "unparsable"}"
      | none =>
        let bits := (rs.filter fun r => match r with | some (0, _) => true | _ => false).length
        let ties := (rs.filter fun r => match r with | some (3, _) => true | _ => false).length
        s!"ok gens={rs.length} bits={bits} tol={rs.length - bits - ties} ties={ties}"
    | _, _, _ => "bad-op"

/-- `VDCMA::suggestLambda`: unsigned(4 + floor(3 ln n)) (no lower bound of 5) -/
def vdSuggestLambda (n : Nat) : Nat := (4.0 + Float.floor (3.0 * Float.log n.toFloat)).toUInt64.toNat

open SharkVerif.Gen.CMAParams in
/-- strategy constants of every class from the REGENERATED formulas, at Float -/
def coeffs (kind : String) (n lambda mu rec : Nat) : String :=
  let hx (l : List Float) := ",".intercalate (l.map hexF)
  match kind with
  | "cma" =>
    let lambda' := if lambda == 0 then suggestLambda n else lambda
    let mu' := if lambda == 0 then suggestMu lambda' rec else mu
    let c := doInitCoeffs FF n mu' rec
    s!"lambda={lambda'} mu={mu'} c={hx [c.cC, c.c1, c.cMu, c.cSigma, c.dSigma, c.muEff]} w={hx c.weights}"
  | "cmsa" =>
    let lambda' := if lambda == 0 then cmsa_defaultLambda n else lambda
    let mu' := if lambda == 0 then cmsa_defaultMu lambda' else mu
    let k := cmsa_consts FF n mu'
    s!"lambda={lambda'} mu={mu'} c={hx [k.cSigma, k.cC]}"
  | "vdcma" =>
    let lambda' := if lambda == 0 then vdSuggestLambda n else lambda
    let mu' := if lambda == 0 then lambda' / 2 else mu
    let w := normalise ((List.range mu').map fun i => vdcma_rawWeight FF mu' i)
    let k := vdcma_consts FF n (sumSq w)
    s!"lambda={lambda'} mu={mu'} c={hx [k.muEff, k.cSigma, k.dSigma, k.cC, k.c1, k.cMu]} w={hx w}"
  | "ecma" =>
    let k := ecma_consts FF n
    s!"c={hx [k.pTarget, k.dStep, k.cP, k.cPath, k.cCov, k.cUnlearn]}"
  | "lmcma" =>
    let lambda' := if lambda == 0 then suggestLambda n else lambda
    let mu' := if lambda == 0 then lambda' / 2 else mu
    let k := lmcma_consts FF n lambda'
    s!"lambda={lambda'} mu={mu'} c={hx [k.c1, k.cC]}"
  | _ => "bad-op"

/-! ## the other strategies (Model/ES.lean) -/
open SharkVerif.Opt.ES

/-- the harness' objectives, same scalar loops at Float -/
def objective (kind : String) (n : Nat) (A b : List Float) (x : List Float) : Float :=
  match kind with
  | "quad" =>
    (List.range n).foldl (fun v i =>
      let r := (List.range n).foldl (fun r j => r + A.getD (i * n + j) 0 * x.getD j 0) 0.0
      v + x.getD i 0 * (0.5 * r - b.getD i 0)) 0.0
  | "rosen" =>
    (List.range (n - 1)).foldl (fun v i =>
      let a := x.getD (i + 1) 0 - x.getD i 0 * x.getD i 0
      let c := 1.0 - x.getD i 0
      v + (100.0 * (a * a) + c * c)) 0.0
  | "plateau" => Float.floor (4.0 * x.foldl (fun v xi => v + xi * xi) 0.0) * 0.25
  | _ => x.foldl (fun v xi => v + xi * xi) 0.0

def worstOf (rs : List (String × Nat)) : Nat × String :=
  rs.foldl (fun (acc : Nat × String) (r : String × Nat) => if r.2 > acc.1 then (r.2, r.1) else acc) (0, "")

def verdict (rs : List (Option (Nat × String))) : String :=
  match rs.findIdx? (fun r => match r with | none => true | some (c, _) => c == 2) with
  | some i => s!"MISMATCH generation {i} {match rs.getD i none with | some (_, f) => f | none => "unparsable"}"
  | none =>
    let bits := (rs.filter fun r => match r with | some (0, _) => true | _ => false).length
    let ties := (rs.filter fun r => match r with | some (3, _) => true | _ => false).length
    s!"ok gens={rs.length} bits={bits} tol={rs.length - bits - ties} ties={ties}"

def hasTies (fv : List Float) : Bool :=
  let sorted := fv.mergeSort (fun a b => decide (a ≤ b))
  (List.zip sorted (sorted.drop 1)).any fun (a, b) => a == b

/-- columns of a row-major n×n matrix -/
def columns (n : Nat) (m : List Float) : List (List Float) :=
  (List.range n).map fun j => (List.range n).map fun i => m.getD (i * n + j) 0
def rowMajor (n : Nat) (cols : List (List Float)) : List Float :=
  (List.range n).flatMap fun i => (List.range n).map fun j => (cols.getD j []).getD i 0

def fnum (fs : List (String × String)) (k : String) : Option Float := (parseBits (field fs k)).map Float.ofBits

/-- `xsimplex <kind> <n> <A> <b> ## <steps> ## <x0> ## <harness trace>`: the whole run re-computed from x0 -/
def xsimplex (line : String) : String :=
  match line.splitOn " ## " with
  | [obj, _steps, x0s, trace] =>
    match (obj.splitOn " ").filter (· ≠ "") with
    | kind :: ns :: rest =>
      match ns.toNat?, floats x0s.trimAscii.toString with
      | some n, some x0 =>
        let A := ((rest.take (n * n)).filterMap parseBits).map Float.ofBits
        let b := (((rest.drop (n * n)).take n).filterMap parseBits).map Float.ofBits
        let f := objective kind n A b
        let states := (trace.splitOn " | ").map fun st =>
          parseFields (if st.startsWith "simplex " then (st.drop 8).toString else st)
        let rs := states.zipIdx.map fun (fs, t) => do
          let m := simplexRun f x0 t
          let bp ← floats (field fs "BP"); let bv ← fnum fs "BV"
          let sx ← floats (field fs "SX"); let sv ← floats (field fs "SV")
          some (worstOf [("bestPoint", cmpVec m.best.point bp), ("bestValue", cmpNum 0 m.best.value bv),
            ("simplexPoints", cmpVec (m.simplex.flatMap (·.point)) sx), ("simplexValues", cmpVec (m.simplex.map (·.value)) sv)])
        verdict rs
      | _, _ => "bad-op"
    | _ => "bad-op"
  | _ => "bad-op"

open SharkVerif.Gen.CMAParams in
def xecma (line : String) : String :=
  match line.splitOn " | " with
  | [] => "bad-op"
  | hdr :: gens =>
    let fh := parseFields hdr
    match (field fh "n").toNat?, (field fh "active").toNat? with
    | some n, some act =>
      let c := ecma_consts FF n
      let sc := (fnum fh "SC").getD 1.0
      let pf := (fnum fh "PF").getD 1e-6
      let qa := (floats (field fh "QA")).getD []
      let qb := (floats (field fh "QB")).getD []
      let lo := (floats (field fh "LO")).getD []
      let hi := (floats (field fh "HI")).getD []
      let f : List Float → Float := fun x => sc * objective (field fh "OBJ") n qa qb x
      -- `BoxConstraintHandler::isFeasible` (with its 1e-13 slack) / `closestFeasible`; no box: everything is feasible
      let K : Constraint Float :=
        { feasible := fun x => lo.isEmpty || (List.zip x (List.zip lo hi)).all fun (xi, l, h) => !(xi + 1.0e-13 < l || xi - 1.0e-13 > h),
          closest := fun x => List.zipWith (fun xi (lh : Float × Float) =>
            let a := if xi < lh.1 then lh.1 else xi        -- std::max(point(i), m_lower(i))
            if lh.2 < a then lh.2 else a) x (List.zip lo hi) }   -- std::min(point(i), m_upper(i))
      let rs := gens.map fun g =>
        match g.splitOn " > " with
        | [b, a] => do
          let fb := parseFields b; let fa := parseFields a
          let th ← fnum fb "TH"
          let k : EcmaConsts Float := { pTarget := c.pTarget, dStep := c.dStep, cP := c.cP, cPath := c.cPath, cCov := c.cCov,
                                        cUnlearn := c.cUnlearn, threshold := th, active := act == 1 }
          let s : Ecma Float := { sigma := ← fnum fb "S", pSucc := ← fnum fb "P", path := ← floats (field fb "PC"),
                                  L := columns n (← floats (field fb "L")), anc := ← floats (field fb "AF"),
                                  bestPoint := ← floats (field fb "BP"), bestValue := ← fnum fb "BV", x := ← floats (field fb "X") }
          let z ← floats (field fb "Z"); let y ← floats (field fb "Y")
          let fp ← fnum fb "FP"; let fu ← fnum fb "FU"
          let threw := field fb "threw" == "1"
          let zz := Vec.normSqr z
          -- the sampled step is `L z` (triangular product, BLAS): checked with tolerance
          let lz := (List.range n).map fun i => (List.range n).foldl (fun acc j => acc + ((s.L.getD j []).getD i 0) * z.getD j 0) 0.0
          -- the offspring re-evaluated by the MODEL of `PenalizingEvaluator` (Model/CMA.lean): x_o = x + sigma y, projected onto
          -- the feasibility box, objective at the projection, penalty factor as configured
          let xo := List.zipWith (fun xi yi => xi + s.sigma * yi) s.x y
          let fuM := unpenalized K f xo
          let fpM := penalized K f pf xo
          match ecmaStep FF k s y zz fp fu with
          | none => some (if threw then 0 else 2, "throw")
          | some s' =>
            if threw then some (2, "throw") else
            some (worstOf [("step=Lz", cmpVec lz y), ("unpenalizedFitness", cmpNum fu.abs fuM fu), ("penalizedFitness", cmpNum fp.abs fpM fp), ("sigma", cmpNum s'.sigma.abs s'.sigma (← fnum fa "S")), ("pSucc", cmpNum 1 s'.pSucc (← fnum fa "P")),
              ("path", cmpVec s'.path (← floats (field fa "PC"))), ("L", cmpVec (rowMajor n s'.L) (← floats (field fa "L"))),
              ("ancestral", cmpVec s'.anc (← floats (field fa "AF"))), ("bestPoint", cmpVec s'.bestPoint (← floats (field fa "BP"))),
              ("bestValue", cmpNum 0 s'.bestValue (← fnum fa "BV")), ("searchPoint", cmpVec s'.x (← floats (field fa "X")))])
        | _ => none
      verdict rs
    | _, _ => "bad-op"

open SharkVerif.Gen.CMAParams in
def xcmsa (line : String) : String :=
  match line.splitOn " | " with
  | [] => "bad-op"
  | hdr :: gens =>
    let fh := parseFields hdr
    match (field fh "n").toNat?, (field fh "mu").toNat? with
    | some n, some mu =>
      let cC := cmsa_cC FF n mu
      let rs := gens.map fun g =>
        match g.splitOn " > " with
        | [b, a] => do
          let fb := parseFields b; let fa := parseFields a
          let s : Cmsa Float := { sigma := ← fnum fb "S", mean := ← floats (field fb "M"), L := columns n (← floats (field fb "L")) }
          let fv ← floats (field fb "F"); let xs ← floats (field fb "X"); let ys ← floats (field fb "Y"); let si ← floats (field fb "SI")
          let off : List (CmsaInd Float) := (List.zip (List.zip (chunk n xs) (chunk n ys)) (List.zip si fv)).map
            fun ((x, y), (sg, f)) => { point := x, step := y, sigma := sg, fitness := f }
          let sel := cmsaSelect off mu
          match cmsaUpdate FF cC n mu s sel, sel.head? with
          | some s', some best =>
            let w := worstOf [("sigma", cmpNum s'.sigma.abs s'.sigma (← fnum fa "S")), ("mean", cmpVec s'.mean (← floats (field fa "M"))),
              ("L", cmpVec (rowMajor n s'.L) (← floats (field fa "L"))), ("bestPoint", cmpVec best.point (← floats (field fa "BP"))),
              ("bestValue", cmpNum 0 best.fitness (← fnum fa "BV"))]
            if w.1 == 2 && hasTies fv && off.length > 16 then some (3, "ties") else some w
          | _, _ => some (2, "throw-or-empty")
        | _ => none
      verdict rs
    | _, _ => "bad-op"

/-- the `noise=` field of a `cemtrace` header: `none` | `const:<c>` | `lin:<a>:<b>` (`CrossEntropyMethod::setNoiseType`) -/
def parseNoise (t : String) : Option (CemNoise Float) :=
  match t.splitOn ":" with
  | [""] | ["none"] => some CemNoise.default
  | ["const", c] => (parseBits c).map fun c => CemNoise.const (Float.ofBits c)
  | ["lin", a, b] => do
    let a ← parseBits a; let b ← parseBits b
    some (CemNoise.linear (Float.ofBits a) (Float.ofBits b))
  | _ => none

def xcem (line : String) : String :=
  match line.splitOn " | " with
  | [] => "bad-op"
  | hdr :: gens =>
    let fh := parseFields hdr
    match (field fh "n").toNat?, (field fh "mu").toNat?, parseNoise (field fh "noise") with
    | some n, some mu, some noise =>
      let rs := gens.map fun g =>
        match g.splitOn " > " with
        | [b, a] => do
          let fb := parseFields b; let fa := parseFields a
          let fv ← floats (field fb "F"); let xs ← floats (field fb "X")
          let off : List (List Float × Float) := List.zip (chunk n xs) fv
          let sel := gselect off mu
          -- `m_counter` is incremented before `updateStrategyParameters` reads the noise term
          let t := (field fb "T").toNat?.getD 0 + 1
          let (m, v) := cemUpdate (cemNoise noise t) n (sel.map (·.1))
          match sel.head? with
          | some best =>
            let w := worstOf [("mean", cmpVec m (← floats (field fa "M"))), ("variance", cmpVec v (← floats (field fa "V"))),
              ("bestPoint", cmpVec best.1 (← floats (field fa "BP"))), ("bestValue", cmpNum 0 best.2 (← fnum fa "BV"))]
            if w.1 == 2 && hasTies fv && off.length > 16 then some (3, "ties") else some w
          | none => some (2, "empty")
        | _ => none
      verdict rs
    | _, _, _ => "bad-op"

/-- comparison behind a cancellation: equal within the usual tolerance, or within the absolute error `extra` that the
cancellation can amplify rounding differences to -/
def cmpVecAbs (extra : Float) (a b : List Float) : Nat :=
  let c := cmpVec a b
  if c ≤ 1 then c
  else if a.length == b.length && (List.zipWith (fun x y => decide ((x - y).abs ≤ extra)) a b).all id then 1 else 2

open SharkVerif.Gen.CMAParams in
/-- `xvdcma`: one-step refinement of `VDCMA::updateStrategyParameters` (constants from the regenerated formulas; the inner
products and norms go through remora's kernels: toleranced like the CMA trace) -/
def xvdcma (line : String) : String :=
  match line.splitOn " | " with
  | [] => "bad-op"
  | hdr :: gens =>
    let fh := parseFields hdr
    match (field fh "n").toNat?, (field fh "mu").toNat? with
    | some n, some mu =>
      let w := normalise ((List.range mu).map fun i => vdcma_rawWeight FF mu i)
      let k := vdcma_consts FF n (sumSq w)
      let c : VdConsts Float := { weights := w, muEff := k.muEff, cSigma := k.cSigma, dSigma := k.dSigma, cC := k.cC, c1 := k.c1, cMu := k.cMu }
      let rs := gens.map fun g =>
        match g.splitOn " > " with
        | [b, a] => do
          let fb := parseFields b; let fa := parseFields a
          let sc := (field fb "S").splitOn ","
          let sigma ← (parseBits (sc.headD "")).map Float.ofBits
          let counter ← (sc.getD 1 "").toNat?
          let d : Vd Float := { sigma := sigma, counter := counter + 1, mean := ← floats (field fb "M"), pc := ← floats (field fb "PC"),
                                ps := ← floats (field fb "PS"), D := ← floats (field fb "D"), vn := ← floats (field fb "VN"), normv := ← fnum fb "NV" }
          let fv ← floats (field fb "F"); let xs ← floats (field fb "X"); let ys ← floats (field fb "Y")
          let off : List (VdInd Float) := (List.zip fv (List.zip (chunk n xs) (chunk n ys))).map fun (f, x, y) => { point := x, y := y, fitness := f }
          let sel := vdSelect off mu
          let d' := vdUpdate FF c n d sel
          -- `pc` contains `(m − mean)/σ`: the few-ulp differences between remora's and the model's weighted mean `m` are
          -- amplified by `|m|/σ` (cancellation); D, v and |v| depend on `pc` through the rank-one term
          let amax := fun (l : List Float) => l.foldl (fun m x => if x.abs > m then x.abs else m) 0
          let extraPc := 1e-13 * amax (d'.mean ++ d.mean) / d.sigma
          let extra := 8 * (1 + amax d'.pc) * extraPc
          match sel.head? with
          | some best =>
            let w := worstOf [("sigma", cmpNum d'.sigma.abs d'.sigma (← fnum fa "S")), ("mean", cmpVec d'.mean (← floats (field fa "M"))),
              ("pc", cmpVecAbs extraPc d'.pc (← floats (field fa "PC"))), ("ps", cmpVec d'.ps (← floats (field fa "PS"))),
              ("D", cmpVecAbs extra d'.D (← floats (field fa "D"))), ("vn", cmpVecAbs extra d'.vn (← floats (field fa "VN"))),
              ("normv", cmpVecAbs extra [d'.normv] [← fnum fa "NV"]),
              ("bestPoint", cmpVec best.point (← floats (field fa "BP"))), ("bestValue", cmpNum 0 best.fitness (← fnum fa "BV"))]
            if w.1 == 2 && hasTies fv && off.length > 16 then some (3, "ties") else some w
          | none => some (2, "empty")
        | _ => none
      verdict rs
    | _, _ => "bad-op"

def step (line : String) : String :=
  let l := line.trimAscii.toString
  if l.startsWith "xtrace " then xtrace (l.drop 7).toString else
  if l.startsWith "xsimplex " then xsimplex (l.drop 9).toString else
  if l.startsWith "xecma " then xecma (l.drop 6).toString else
  if l.startsWith "xcmsa " then xcmsa (l.drop 6).toString else
  if l.startsWith "xcem " then xcem (l.drop 5).toString else
  if l.startsWith "xvdcma " then xvdcma (l.drop 7).toString else
  let toks := (l.splitOn " ").filter (· ≠ "")
  match toks with
  | ["coeffs", kind, n, lambda, mu, rec] =>
    match n.toNat?, lambda.toNat?, mu.toNat?, rec.toNat? with
    | some n, some lambda, some mu, some rec => coeffs kind n lambda mu rec
    | _, _, _, _ => "bad-op"
  | _ => ""

partial def loop (h : IO.FS.Stream) (out : IO.FS.Stream) : IO Unit := do
  let line ← h.getLine
  if line.isEmpty then return ()
  out.putStrLn (step line)
  loop h out

def main : IO Unit := do
  loop (← IO.getStdin) (← IO.getStdout)
