/-
Line-protocol driver for the C11 model (CMA-ES): `coeffs` lines are answered with the Float
instance of `Model/CMA.lean` (compared bit for bit with `CMA::doInit`), `xtrace` lines carry a
trace of the real `CMA::updatePopulation` (state before, evaluated offspring, eigenvectors,
state after) and are re-computed generation by generation with the model (one-step refinement).
-/
import SharkVerif.Model.CMA
open SharkVerif.Opt SharkVerif.Opt.CMA

def hexVal (c : Char) : Option Nat :=
  if '0' ≤ c ∧ c ≤ '9' then some (c.toNat - '0'.toNat)
  else if 'a' ≤ c ∧ c ≤ 'f' then some (c.toNat - 'a'.toNat + 10)
  else none

def parseBits (t : String) : Option UInt64 :=
  match t.toList with
  | 'x' :: ds =>
    if ds.length != 16 then none else
    ds.foldlM (fun (acc : Nat) c => (hexVal c).map fun v => acc * 16 + v) 0 |>.map (·.toUInt64)
  | _ => none

def hexDigit (n : Nat) : Char := if n < 10 then Char.ofNat (48 + n) else Char.ofNat (87 + n)
def hexF (x : Float) : String :=
  let b := x.toBits.toNat
  "x" ++ String.ofList ((List.range 16).map fun i => hexDigit ((b >>> (4 * (15 - i))) % 16))

def floats (t : String) : Option (List Float) :=
  if t.isEmpty then some [] else (t.splitOn ",").mapM fun s => (parseBits s).map Float.ofBits

def FF : Fns Float := { log := Float.log, sqrt := Float.sqrt, exp := Float.exp, pow := Float.pow }

/-- `CMA::suggestLambda`: max(5, min(4 + floor(3 ln n), n)) -/
def suggestLambda (n : Nat) : Nat :=
  let l := (4.0 + Float.floor (3.0 * Float.log n.toFloat)).toUInt64.toNat
  Nat.max 5 (Nat.min l n)

def chunk (n : Nat) (l : List Float) : List (List Float) :=
  (List.range (l.length / n)).map fun i => (l.drop (i * n)).take n

def cmpNum (scale a b : Float) : Nat :=
  if a.toBits == b.toBits || (a == 0 && b == 0) then 0
  else if (a - b).abs ≤ 1e-9 * (1e-300 + scale) then 1 else 2

def cmpVec (a b : List Float) : Nat :=
  if a.length != b.length then 2 else
  let scale := (a ++ b).foldl (fun m x => if x.abs > m then x.abs else m) 0
  (List.zipWith (cmpNum scale) a b).foldl Nat.max 0

def field (fs : List (String × String)) (k : String) : String :=
  match fs.find? (·.1 == k) with | some (_, v) => v | none => ""

def parseFields (s : String) : List (String × String) :=
  ((s.splitOn " ").filter (· ≠ "")).filterMap fun kv =>
    match kv.splitOn "=" with
    | [k, v] => some (k, v)
    | _ => none

/-- check one generation; returns (worst comparison code, name of the worst field) -/
def checkGen (n mu rec : Nat) (before after : String) : Option (Nat × String) := do
  let fb := parseFields before
  let fa := parseFields after
  let sc := (field fb "S").splitOn ","
  let sigma ← (parseBits (sc.headD "")).map Float.ofBits
  let counter ← (sc.getD 1 "").toNat?
  let mean ← floats (field fb "M"); let pc ← floats (field fb "PC"); let ps ← floats (field fb "PS")
  let C ← floats (field fb "C"); let B ← floats (field fb "B")
  let Fv ← floats (field fb "F"); let X ← floats (field fb "X"); let Z ← floats (field fb "Z")
  let xs := chunk n X; let zs := chunk n Z
  let off : List (Indiv Float) := (List.zip Fv (List.zip xs zs)).map fun (f, x, z) => { point := x, chrom := z, fitness := f }
  let sel := select off mu
  let c := doInitCoeffs FF n mu rec
  let d : Dist Float := { sigma := sigma, mean := mean, pc := pc, ps := ps, C := chunk n C, counter := counter }
  let d' := update FF c n d sel (chunk n B)
  let ev ← (parseBits (field fa "EV")).map Float.ofBits
  let s' := clampSigma FF 1e-40 d'.sigma ev
  let aS ← (parseBits (field fa "S")).map Float.ofBits
  let aM ← floats (field fa "M"); let aPC ← floats (field fa "PC"); let aPS ← floats (field fa "PS")
  let aC ← floats (field fa "C"); let aBP ← floats (field fa "BP")
  let aBV ← (parseBits (field fa "BV")).map Float.ofBits
  let best := sel.head?
  let res : List (String × Nat) :=
    [("sigma", cmpNum s'.abs s' aS), ("mean", cmpVec d'.mean aM), ("pc", cmpVec d'.pc aPC), ("ps", cmpVec d'.ps aPS),
     ("C", cmpVec d'.C.flatten aC),
     ("bestPoint", match best with | some b => cmpVec b.point aBP | none => 2),
     ("bestValue", match best with | some b => cmpNum 0 b.fitness aBV | none => 2)]
  let worst := res.foldl (fun (acc : Nat × String) (r : String × Nat) => if r.2 > acc.1 then (r.2, r.1) else acc) (0, "")
  -- `ElitistSelection` uses std::sort, which is not stable beyond 16 elements: with tied fitness values the C++ may
  -- select other individuals than the model's stable sort; such generations are counted, not compared (code 3)
  let sorted := Fv.mergeSort (fun a b => decide (a ≤ b))
  let ties := (List.zip sorted (sorted.drop 1)).any fun (a, b) => a == b
  if worst.1 == 2 && ties && off.length > 16 then some (3, "ties") else some worst

def xtrace (line : String) : String :=
  match line.splitOn " | " with
  | [] => "bad-op"
  | hdr :: gens =>
    let fh := parseFields hdr
    match (field fh "n").toNat?, (field fh "mu").toNat?, (field fh "rec").toNat? with
    | some n, some mu, some rec =>
      let rs := gens.map fun g =>
        match g.splitOn " > " with
        | [b, a] => checkGen n mu rec b a
        | _ => none
      match rs.findIdx? (fun r => match r with | none => true | some (c, _) => c == 2) with
      | some i => s!"MISMATCH generation {i} {match rs.getD i none with | some (_, f) => f | none => "unparsable"}"
      | none =>
        let bits := (rs.filter fun r => match r with | some (0, _) => true | _ => false).length
        let ties := (rs.filter fun r => match r with | some (3, _) => true | _ => false).length
        s!"ok gens={rs.length} bits={bits} tol={rs.length - bits - ties} ties={ties}"
    | _, _, _ => "bad-op"

/-- `VDCMA::suggestLambda`: unsigned(4 + floor(3 ln n)) (no lower bound of 5) -/
def vdSuggestLambda (n : Nat) : Nat := (4.0 + Float.floor (3.0 * Float.log n.toFloat)).toUInt64.toNat

open SharkVerif.Gen.CMAParams in
/-- strategy constants of every class from the REGENERATED formulas, at Float -/
def coeffs (kind : String) (n lambda mu rec : Nat) : String :=
  let hx (l : List Float) := ",".intercalate (l.map hexF)
  match kind with
  | "cma" =>
    let lambda' := if lambda == 0 then suggestLambda n else lambda
    let mu' := if lambda == 0 then suggestMu lambda' rec else mu
    let c := doInitCoeffs FF n mu' rec
    s!"lambda={lambda'} mu={mu'} c={hx [c.cC, c.c1, c.cMu, c.cSigma, c.dSigma, c.muEff]} w={hx c.weights}"
  | "cmsa" =>
    let lambda' := if lambda == 0 then cmsa_defaultLambda n else lambda
    let mu' := if lambda == 0 then cmsa_defaultMu lambda' else mu
    let k := cmsa_consts FF n mu'
    s!"lambda={lambda'} mu={mu'} c={hx [k.cSigma, k.cC]}"
  | "vdcma" =>
    let lambda' := if lambda == 0 then vdSuggestLambda n else lambda
    let mu' := if lambda == 0 then lambda' / 2 else mu
    let w := normalise ((List.range mu').map fun i => vdcma_rawWeight FF mu' i)
    let k := vdcma_consts FF n (sumSq w)
    s!"lambda={lambda'} mu={mu'} c={hx [k.muEff, k.cSigma, k.dSigma, k.cC, k.c1, k.cMu]} w={hx w}"
  | "ecma" =>
    let k := ecma_consts FF n
    s!"c={hx [k.pTarget, k.dStep, k.cP, k.cPath, k.cCov, k.cUnlearn]}"
  | "lmcma" =>
    let lambda' := if lambda == 0 then suggestLambda n else lambda
    let mu' := if lambda == 0 then lambda' / 2 else mu
    let k := lmcma_consts FF n lambda'
    s!"lambda={lambda'} mu={mu'} c={hx [k.c1, k.cC]}"
  | _ => "bad-op"

def step (line : String) : String :=
  let l := line.trimAscii.toString
  if l.startsWith "xtrace " then xtrace (l.drop 7).toString else
  let toks := (l.splitOn " ").filter (· ≠ "")
  match toks with
  | ["coeffs", kind, n, lambda, mu, rec] =>
    match n.toNat?, lambda.toNat?, mu.toNat?, rec.toNat? with
    | some n, some lambda, some mu, some rec => coeffs kind n lambda mu rec
    | _, _, _, _ => "bad-op"
  | _ => ""

partial def loop (h : IO.FS.Stream) (out : IO.FS.Stream) : IO Unit := do
  let line ← h.getLine
  if line.isEmpty then return ()
  out.putStrLn (step line)
  loop h out

def main : IO Unit := do
  loop (← IO.getStdin) (← IO.getStdout)
