/-
Line-protocol driver for the C05 kernel model (Model/Kernels.lean).
`drv_c05 rat`   — runs the model at `Rat` (exact mode; no exp/sqrt kernels)
`drv_c05 float` — runs the model at `Float` (bit mode; libm exp/sqrt)
One op per input line, one observation line per op; same protocol as harness/c05.cpp.
Values are printed exactly as `m:e` (value = m·2^e, m odd) in both modes.
-/
import SharkVerif.Model.Kernels
import SharkVerif.Model.KernelDerivs
import SharkVerif.Model.KernelGrad
import SharkVerif.Model.KernelChain
open SharkVerif SharkVerif.Kernels SharkVerif.Models

class DrvScalar (α : Type) extends Add α, Sub α, Mul α, Div α, Neg α, BEq α where
  zero : α
  one : α
  ofDyadic : Int → Int → α
  render : α → String
  exp : α → α
  sqrt : α → α
  tanh : α → α

instance {α : Type} [DrvScalar α] : OfNat α 0 := ⟨DrvScalar.zero⟩
instance {α : Type} [DrvScalar α] : OfNat α 1 := ⟨DrvScalar.one⟩

/-! ### Rat -/
def pow2 (e : Nat) : Nat := 2 ^ e

partial def stripTwos (m : Int) (e : Int) : Int × Int :=
  if m == 0 then (0, 0) else if m % 2 == 0 then stripTwos (m / 2) (e + 1) else (m, e)

def renderDyadic (m e : Int) : String :=
  let (m, e) := stripTwos m e
  s!"{m}:{e}"

partial def log2Exact (d : Nat) (acc : Nat := 0) : Option Nat :=
  if d == 1 then some acc else if d % 2 == 0 then log2Exact (d / 2) (acc + 1) else none

def renderRat (q : Rat) : String :=
  match log2Exact q.den with
  | some k => renderDyadic q.num (-(k : Int))
  | none => s!"rat:{q.num}/{q.den}"

def ratOfDyadic (m e : Int) : Rat :=
  if e ≥ 0 then ((m * ((2 ^ e.toNat : Nat) : Int) : Int) : Rat) else (m : Rat) / ((2 ^ (-e).toNat : Nat) : Rat)

/-- exact square root of a rational whose numerator and denominator are perfect squares (exact mode only reaches
`sqrt` on such values: normalised kernels over points whose norms are powers of two); 0 otherwise -/
def ratSqrt (q : Rat) : Rat :=
  if q.num < 0 then 0 else
  let n := q.num.toNat
  let a := Nat.sqrt n
  let b := Nat.sqrt q.den
  if a * a == n && b * b == q.den then (a : Rat) / (b : Rat) else 0

instance : DrvScalar Rat where
  zero := 0
  one := 1
  ofDyadic := ratOfDyadic
  render := renderRat
  exp := fun x => if x == 0 then 1 else 0       -- exact mode reaches exp at 0 only
  sqrt := ratSqrt
  tanh := fun _ => 0                            -- exact mode: linear / rectifier layers only

/-! ### Float -/
def renderFloat (x : Float) : String :=
  if x.isNaN then "nan"
  else if x.isInf then (if x > 0 then "inf" else "-inf")
  else
    let b : Nat := x.toBits.toNat
    let neg : Bool := b / 2 ^ 63 == 1
    let ex : Nat := (b / 2 ^ 52) % 2048
    let frac : Nat := b % 2 ^ 52
    let mant : Nat := if ex == 0 then frac else frac + 2 ^ 52
    let e : Int := if ex == 0 then -1074 else (ex : Int) - 1075
    let m : Int := if neg then -(mant : Int) else (mant : Int)
    renderDyadic m e

def floatOfDyadic (m e : Int) : Float := (Float.ofInt m).scaleB e

instance : DrvScalar Float where
  zero := 0
  one := 1
  ofDyadic := floatOfDyadic
  render := renderFloat
  exp := Float.exp
  sqrt := Float.sqrt
  tanh := Float.tanh

/-! ### parsing -/
section
variable {α : Type} [DrvScalar α] [Scalar α]

/-- `m:e` or a plain integer -/
def parseVal (s : String) : Option α :=
  match s.splitOn ":" with
  | [m] => m.toInt?.map fun m => DrvScalar.ofDyadic m 0
  | [m, e] => do let m ← m.toInt?; let e ← e.toInt?; pure (DrvScalar.ofDyadic m e)
  | _ => none

def parseVals : Nat → List String → Option (List α × List String)
  | 0, ts => some ([], ts)
  | n + 1, t :: ts => do
      let v ← parseVal t
      let (vs, rest) ← parseVals n ts
      pure (v :: vs, rest)
  | _, [] => none

def chunkL (d : Nat) : Nat → List α → List (List α)
  | 0, _ => []
  | n + 1, xs => xs.take d :: chunkL d n (xs.drop d)

partial def parseKern : List String → Option (Kern α × List String)
  | "lin" :: ts => some (.linear, ts)
  | "poly" :: d :: c :: ts => do
      let d ← d.toNat?; let c ← parseVal c; pure (.poly d c, ts)
  | "mono" :: n :: ts => do let n ← n.toNat?; pure (.monomial n, ts)
  | "gauss" :: g :: ts => do let g ← parseVal g; pure (.gauss g, ts)
  | "ard" :: d :: ts => do
      let d ← d.toNat?
      let (gs, rest) ← parseVals d ts
      pure (.ard gs, rest)
  | "norm" :: ts => do let (k, rest) ← parseKern ts; pure (.normalized k, rest)
  | "scaled" :: f :: ts => do
      let f ← parseVal f; let (k, rest) ← parseKern ts; pure (.scaled f k, rest)
  | "wsum" :: n :: s :: ts => do        -- wsum n weightsum w1 K1 ... wn Kn  (weights set directly)
      let n ← n.toNat?; let s ← parseVal s
      let rec go : Nat → List String → Option (List α × List (Kern α) × List String)
        | 0, ts => some ([], [], ts)
        | n + 1, w :: ts => do
            let w ← parseVal w
            let (k, rest) ← parseKern ts
            let (ws, ks, rest) ← go n rest
            pure (w :: ws, k :: ks, rest)
        | _, [] => none
      let (ws, ks, rest) ← go n ts
      pure (.wsum ws s ks, rest)
  | "wsump" :: n :: ts => do            -- wsump n p2 .. pn K1 ... Kn  (setParameterVector)
      let n ← n.toNat?
      let (ps, rest) ← parseVals (n - 1) ts
      let (ks, rest) ← parseKerns n rest
      pure (wsumOfParams DrvScalar.exp ps ks, rest)
  | "prod" :: n :: ts => do
      let n ← n.toNat?
      let (ks, rest) ← parseKerns n ts
      pure (.prod ks, rest)
  | "sub" :: a :: b :: ts => do
      let a ← a.toNat?; let b ← b.toNat?
      let (k, rest) ← parseKern ts
      pure (.subrange a b k, rest)
  | "model" :: r :: c :: ts => do        -- model r c A(r*c) b(r) K : ModelKernel over LinearModel x ↦ A x + b
      let r ← r.toNat?; let c ← c.toNat?
      let (as, rest) ← parseVals (r * c) ts
      let (bs, rest) ← parseVals r rest
      let (k, rest) ← parseKern rest
      pure (.mapped (chunkL c r as) bs k, rest)
  | "subk" :: n :: ts => do              -- subk n p2..pn a1 b1 K1 ... an bn Kn : SubrangeKernel + setParameterVector
      let n ← n.toNat?
      let (ps, rest) ← parseVals (n - 1) ts
      let rec goTerms : Nat → List String → Option (List (Nat × Nat × Kern α) × List String)
        | 0, ts => some ([], ts)
        | n + 1, a :: b :: ts => do
            let a ← a.toNat?; let b ← b.toNat?
            let (k, rest) ← parseKern ts
            let (more, rest) ← goTerms n rest
            pure ((a, b, k) :: more, rest)
        | _, _ => none
      let (terms, rest) ← goTerms n rest
      pure (subrangeKernel DrvScalar.exp ps terms, rest)
  | _ => none
where
  parseKerns : Nat → List String → Option (List (Kern α) × List String)
    | 0, ts => some ([], ts)
    | n + 1, ts => do
        let (k, rest) ← parseKern ts
        let (ks, rest) ← parseKerns n rest
        pure (k :: ks, rest)

/-! ### ModelKernel over a ConcatenatedModel chain: `mnet L spec.. params..` (specs as in Driver/C04.lean) -/
def parseActC : String → Option Act
  | "linear" => some .linear | "rectifier" => some .rectifier | "tanh" => some .tanh
  | "logistic" => some .logistic | "fastsigmoid" => some .fastSigmoid | _ => none

def mkDenseC (act : Act) (hasB : Bool) (nIn nOut : Nat) (p : List α) : Dense α :=
  let m : Dense α := { nIn := nIn, nOut := nOut, W := fun _ _ => 0, hasB := hasB, b := fun _ => 0, act := act }
  let pa := p.toArray
  { m with W := fun k j => pa.getD (k * nIn + j) 0, b := fun k => pa.getD (nOut * nIn + k) 0 }

/-- layer specs → chain; returns the chain, its output dimension and the unused parameters -/
def parseNet : List String → Nat → List α → Option (Chain α × Nat × List α)
  | [], nIn, p => some ([], nIn, p)
  | sp :: rest, nIn, p =>
    match sp.splitOn ":" with
    | ["d", act, hb, nOut, opt] =>
      match parseActC act, nOut.toNat? with
      | some act, some nOut =>
        let np := nOut * nIn + (if hb == "1" then nOut else 0)
        if p.length < np || nOut == 0 then none else
        match parseNet rest nOut (p.drop np) with
        | some (tail, n2, p2) => some ((Layer.dense (mkDenseC act (hb == "1") nIn nOut (p.take np)), opt == "1") :: tail, n2, p2)
        | none => none
      | _, _ => none
    | ["n", act, opt] =>
      match parseActC act with
      | some act =>
        match parseNet rest nIn p with
        | some (tail, n2, p2) => some ((Layer.neuron act nIn, opt == "1") :: tail, n2, p2)
        | none => none
      | none => none
    | ["r", kind, opt] =>
      let k? : Option RowKind := if kind == "softmax" then some .softmax else if kind == "normalizer" then some .normalizer else none
      match k? with
      | some k =>
        match parseNet rest nIn p with
        | some (tail, n2, p2) => some ((Layer.rowact k nIn, opt == "1") :: tail, n2, p2)
        | none => none
      | none => none
    | _ => none

def chunk (d : Nat) : Nat → List α → List (List α)
  | 0, _ => []
  | n + 1, xs => xs.take d :: chunk d n (xs.drop d)

def showRow (r : List α) : String := ",".intercalate (r.map DrvScalar.render)
def showMat (m : List (List α)) : String := ";".intercalate (m.map showRow)

structure St (α : Type) where
  kern : Option (Kern α) := none
  table : Option (Mat α) := none     -- DiscreteKernel
  pts : List (Point α) := []
  ipts : List Nat := []
  sets : List (Mat α) := []          -- PointSetKernel inputs
  norm : Bool := false               -- IS_NORMALIZED as cached by the constructors (KObj.normFlag)
  ad : Bool := false                 -- setAdaptiveAll(true) was called on every weighted sum
  -- KernelExpansion: basis batches, alpha, offset, number of outputs
  kexp : Option (List (Mat α) × Mat α × List α × Nat) := none
  -- GaussianTaskKernel / MultiTaskKernel: tasks of the points, number of tasks, gamma, current table
  tasks : List Nat := []
  ntasks : Nat := 0
  tgamma : Option α := none
  ttable : Option (Mat α) := none
  -- MklKernel over pairs (x[0,da), x[da,d)): the split position
  mklSplit : Nat := 0
  -- ModelKernel over a ConcatenatedModel chain over the current kernel: the chain and its input dimension
  net : Option (Chain α × Nat) := none

def seg {β : Type} (xs : List β) (a b : Nat) : List β := (xs.drop a).take (b - a)

/-- the fixed symmetric weight matrix of the `gderiv` / `gderivx` ops -/
def gramW (i j : Nat) : α := DrvScalar.ofDyadic ((((i + 1) * (j + 1) * 7 + (i + j) * 3 + 1) % 5 : Nat) : Int) 0 - DrvScalar.ofDyadic 2 0

def step (s : St α) (line : String) : St α × String :=
  let toks := (line.trimAscii.toString.splitOn " ").filter (· ≠ "")
  let toks := if toks.head? == some "mk" then toks.drop 1 else toks     -- `mk <op>`: an op on the MklKernel object
  let ex := (DrvScalar.exp : α → α)
  let sq := (DrvScalar.sqrt : α → α)
  let th := (DrvScalar.tanh : α → α)
  match toks with
  | [] => (s, "")
  | "kern" :: "disc" :: n :: ts =>
    match n.toNat? with
    | none => (s, "bad-op")
    | some n =>
      match parseVals (α := α) (n * n) ts with
      | some (vs, []) => ({ s with table := some (chunk n n vs), kern := none }, s!"ok disc {n}")
      | _ => (s, "bad-op")
  | "mkl" :: da :: p :: ts =>      -- MklKernel over pairs (x[0,da), x[da,d)) = direct sum of two kernels, log-weight p
    match da.toNat?, parseVal (α := α) p, parseKern (α := α) ts with
    | some da, some p, some (k1, rest) =>
      match parseKern (α := α) rest with
      | some (k2, []) =>
        let k := subrangeKernel ex [p] [(0, da, k1), (da, 1000000, k2)]
        ({ s with kern := some k, table := none, sets := [], norm := (KObj.construct k).normFlag, ad := false, kexp := none, ttable := none, net := none }, "ok")
      | _ => (s, "bad-op")
    | _, _, _ => (s, "bad-op")
  | "kern" :: ts =>
    match parseKern (α := α) ts with
    | some (k, []) => ({ s with kern := some k, table := none, sets := [], norm := (KObj.construct k).normFlag, ad := false, kexp := none, ttable := none, net := none }, "ok")
    | _ => (s, "bad-op")
  | "pts" :: n :: d :: ts =>
    match n.toNat?, d.toNat? with
    | some n, some d =>
      match parseVals (α := α) (n * d) ts with
      | some (vs, []) => ({ s with pts := chunk d n vs, kexp := none, ttable := none }, s!"ok {n} {d}")
      | _ => (s, "bad-op")
    | _, _ => (s, "bad-op")
  | "psets" :: ts =>
    match ts.mapM String.toNat? with
    | some sizes => ({ s with sets := splitSizes s.pts sizes }, s!"ok {sizes.length}")
    | none => (s, "bad-op")
  | "ps" :: op :: args =>
    match (if s.sets.isEmpty then none else s.kern), args.mapM parseNatOrVal with
    | some k, some a =>
      let pse (X Z : Mat α) : α := pointSetEval ex sq k X Z
      let pseS (X Z : Mat α) : α := matSum (k.evalBlockS ex sq X Z) / natS (X.length * Z.length)
      let st (i : Nat) : Mat α := s.sets.getD i []
      match op, a with
      | "single", [.inl i, .inl j] => (s, DrvScalar.render (pse (st i) (st j)))
      | "block", [.inl a, .inl b, .inl c, .inl d] =>
        (s, showMat (pointSetBlock ex sq k (seg s.sets a b) (seg s.sets c d)))
      | "sblock", [.inl a, .inl b, .inl c, .inl d] =>
        (s, showMat ((seg s.sets a b).map fun X => (seg s.sets c d).map fun Z => pseS X Z))
      | "fdist", [.inl i, .inl j] =>
        (s, DrvScalar.render (pse (st i) (st i) - two * pse (st i) (st j) + pse (st j) (st j)))
      | "dcheck", _ => (s, "ok")
      | "stale", _ => (s, "ok")
      | "gderiv", _ => (s, "ok")
      | "gramt", _ => (s, "ok")
      | "reuse", _ => (s, "ok")
      | "pderiv", .inl a :: .inl b :: .inl c :: .inl d :: cs =>
        if !k.hasParamDeriv then (s, "unsupported") else
        let C := chunk (d - c) (b - a) (cs.map valOf)
        let g := pointSetParamGrad (fun C X1 X2 => k.paramGradA ex sq s.ad C X1 X2) C (seg s.sets a b) (seg s.sets c d)
          (List.replicate (k.numParamsA s.ad) 0)
        (s, "g=" ++ showRow g)
      | "gderivx", sizes =>
        match sizes.mapM natOf with
        | none => (s, "bad-op")
        | some sizes =>
          if !k.hasParamDeriv then (s, "unsupported") else
          let np := k.numParamsA s.ad
          let bg := fun (C : Mat α) (B1 B2 : List (Mat α)) =>
            pointSetParamGrad (fun C X1 X2 => k.paramGradA ex sq s.ad C X1 X2) C B1 B2 (List.replicate np 0)
          let g := gramParamDeriv vadd (vscale two) (List.replicate np 0) bg gramW (splitSizes s.sets sizes)
          (s, "g=" ++ showRow g)
      | "gram", reg :: sizes =>
        match sizes.mapM natOf with
        | none => (s, "bad-op")
        | some sizes =>
          let n := sizes.foldl (· + ·) 0
          let M := regularizedGram (pointSetBlock ex sq k) (valOf reg) (splitSizes s.sets sizes)
          (s, showMat (M.toRows n n))
      | _, _ => (s, "bad-op")
    | _, _ => (s, "bad-op")
  | "mnet" :: L :: ts =>
    match L.toNat?, s.kern with
    | some L, some k =>
      let nIn := (s.pts.headD []).length
      match parseVals (α := α) (ts.length - L) (ts.drop L) with
      | some (ps, []) =>
        match parseNet (ts.take L) nIn ps with
        | some (c, _, []) =>
          if L == 0 || s.pts.isEmpty then (s, "bad-op") else
          ({ s with net := some (c, nIn) },
            s!"ok np={k.numParamsA s.ad + Chain.numberOfParameters c} pd={if k.hasParamDeriv && k.hasInputDeriv then 1 else 0}")
        | _ => (s, "bad-op")
      | _ => (s, "bad-op")
    | _, _ => (s, "bad-op")
  | "mn" :: op :: args =>
    match s.kern, s.net, args.mapM parseNatOrVal with
    | some k, some (c, nIn), some a =>
      let g (X : Mat α) : Mat α := chainEvalM th ex c nIn X
      let blk (X1 X2 : Mat α) : Mat α := modelKernelBlock (k.evalBlock ex sq) g X1 X2
      let blkS (X1 X2 : Mat α) : Mat α := modelKernelBlock (k.evalBlockS ex sq) g X1 X2
      let single (x z : Point α) : α := k.eval ex sq ((g [x]).headD []) ((g [z]).headD [])
      let pd := k.hasParamDeriv && k.hasInputDeriv
      let pgrad (C X1 X2 : Mat α) : List α :=
        modelKernelParamGrad (k.paramGradA ex sq s.ad) (k.inputGradA ex sq s.ad) g (chainGradM th ex c) C X1 X2
      let np := k.numParamsA s.ad + Chain.numberOfParameters c
      let pt (i : Nat) : Point α := s.pts.getD i []
      match op, a with
      | "single", [.inl i, .inl j] => (s, DrvScalar.render (single (pt i) (pt j)))
      | "block", [.inl a, .inl b, .inl c', .inl d] => (s, showMat (blk (seg s.pts a b) (seg s.pts c' d)))
      | "sblock", [.inl a, .inl b, .inl c', .inl d] => (s, showMat (blkS (seg s.pts a b) (seg s.pts c' d)))
      | "fdist", [.inl i, .inl j] =>
        (s, DrvScalar.render (single (pt i) (pt i) - two * single (pt i) (pt j) + single (pt j) (pt j)))
      | "flags", [] => (s, s!"norm=0 np={np}")
      | "dcheck", _ => (s, "ok")
      | "stale", _ => (s, "ok")
      | "gderiv", _ => (s, "ok")
      | "gramt", _ => (s, "ok")
      | "reuse", _ => (s, "ok")
      | "setparams", ps =>
        if ps.length == np then
          let vs := ps.map valOf
          ({ s with kern := some (k.setParamsA ex s.ad (vs.take (k.numParamsA s.ad))),
                    net := some (Chain.setParams c (vs.drop (k.numParamsA s.ad)), nIn) }, "ok")
        else (s, "bad-op")
      | "pderiv", .inl a :: .inl b :: .inl c' :: .inl d :: cs =>
        if !pd then (s, "unsupported") else
        (s, "g=" ++ showRow (pgrad (chunk (d - c') (b - a) (cs.map valOf)) (seg s.pts a b) (seg s.pts c' d)))
      | "gderivx", sizes =>
        match sizes.mapM natOf with
        | none => (s, "bad-op")
        | some sizes =>
          if !pd then (s, "unsupported") else
          (s, "g=" ++ showRow (gramParamDeriv vadd (vscale two) (List.replicate np 0) pgrad gramW (splitSizes s.pts sizes)))
      | "gram", reg :: sizes =>
        match sizes.mapM natOf with
        | none => (s, "bad-op")
        | some sizes =>
          let n := sizes.foldl (· + ·) 0
          (s, showMat ((regularizedGram blk (valOf reg) (splitSizes s.pts sizes)).toRows n n))
      | _, _ => (s, "bad-op")
    | _, _, _ => (s, "bad-op")
  | "ipts" :: ts =>
    match ts.mapM String.toNat? with
    | some is => ({ s with ipts := is }, s!"ok {is.length}")
    | none => (s, "bad-op")
  | op :: args =>
    match args.mapM parseNatOrVal with
    | none => (s, "bad-op")
    | some a =>
      match s.kern, s.table with
      | some k, _ =>
        let pt (i : Nat) : Point α := s.pts.getD i []
        match op, a with
        | "single", [.inl i, .inl j] => (s, DrvScalar.render (k.eval ex sq (pt i) (pt j)))
        | "block", [.inl a, .inl b, .inl c, .inl d] =>
          (s, showMat (k.evalBlock ex sq (seg s.pts a b) (seg s.pts c d)))
        | "sblock", [.inl a, .inl b, .inl c, .inl d] =>
          (s, showMat (k.evalBlockS ex sq (seg s.pts a b) (seg s.pts c d)))
        | "fdist", [.inl i, .inl j] =>
          (s, DrvScalar.render ((KObj.mk k s.norm).featureDistanceSqr ex sq (pt i) (pt j)))
        | "fdistb", [.inl a, .inl b, .inl c, .inl d] =>
          (s, showMat ((KObj.mk k s.norm).featureDistanceBlock ex sq (seg s.pts a b) (seg s.pts c d)))
        | "dcheck", _ => (s, "ok")
        | "stale", _ => (s, "ok")
        | "gramt", _ => (s, "ok")
        | "reuse", _ => (s, "ok")
        | "unitvar", _ => (s, "ok")
        | "gderiv", _ => (s, "ok")
        | "flags", [] => (s, s!"norm={if s.norm then 1 else 0} np={k.numParamsA s.ad}")
        | "adaptall", [] => ({ s with ad := true }, s!"ok np={k.numParamsA true}")
        -- in-place reconfiguration of the live object: the cached flag `s.norm` is NOT recomputed
        | "setfactor", [.inl i, f] =>
          if i < k.numScaled then
            ({ s with kern := some ((KObj.mk k s.norm).apply ex (.setFactor i (valOf f))).expr }, "ok")
          else (s, "bad-op")
        | "setparams", ps =>
          if ps.length == k.numParamsA s.ad then
            ({ s with kern := some (k.setParamsA ex s.ad (ps.map valOf)) }, "ok")
          else (s, "bad-op")
        | "pderiv", .inl a :: .inl b :: .inl c :: .inl d :: cs =>
          let C := chunk (d - c) (b - a) (cs.map valOf)
          let X1 := seg s.pts a b
          let X2 := seg s.pts c d
          if k.hasParamDeriv then (s, "g=" ++ showRow (k.paramGradA ex sq s.ad C X1 X2)) else (s, "unsupported")
        | "ideriv", .inl a :: .inl b :: .inl c :: .inl d :: cs =>
          let C := chunk (d - c) (b - a) (cs.map valOf)
          let X1 := seg s.pts a b
          let X2 := seg s.pts c d
          if k.hasInputDeriv then (s, showMat (k.inputGradA ex sq s.ad C X1 X2)) else (s, "unsupported")
        | "gderivx", sizes =>
          match sizes.mapM natOf with
          | none => (s, "bad-op")
          | some sizes =>
            if !k.hasParamDeriv then (s, "unsupported") else
            let np := k.numParamsA s.ad
            let g := gramParamDeriv vadd (vscale two) (List.replicate np 0)
              (fun C B1 B2 => k.paramGradA ex sq s.ad C B1 B2) gramW (splitSizes s.pts sizes)
            (s, "g=" ++ showRow g)
        -- KernelExpansion: kexp nout off nb s1..snb alpha(n*nout) [b(nout)]
        | "kexp", .inl nout :: .inl off :: .inl nb :: rest =>
          match (rest.take nb).mapM natOf with
          | none => (s, "bad-op")
          | some sizes =>
            let n := sizes.foldl (· + ·) 0
            let vals := (rest.drop nb).map valOf
            if vals.length != n * nout + (if off == 1 then nout else 0) || n > s.pts.length then (s, "bad-op") else
            let alpha := chunk nout n vals
            let b := if off == 1 then vals.drop (n * nout) else []
            ({ s with kexp := some (splitSizes s.pts sizes, alpha, b, nout) }, s!"ok {n} {nout}")
        | "kx", [.inl a, .inl b] =>
          match s.kexp with
          | none => (s, "bad-op")
          | some (basis, alpha, off, nout) => (s, showMat (kexpEval (k.evalBlock ex sq) basis alpha off nout (seg s.pts a b)))
        -- evalSkipMissingFeatures: skip i j maskA maskB maskMissingness (bit t set = feature t is NaN)
        | "skip", [.inl i, .inl j, .inl ma, .inl mb, .inl mm] =>
          if !k.variableInputSize then (s, "unsupported") else
          let a := pt i
          let b := pt j
          let keep3 := (List.range a.length).map fun t => !(ma.testBit t) && !(mb.testBit t)
          let keep4 := (List.range a.length).map fun t => !(ma.testBit t) && !(mb.testBit t) && !(mm.testBit t)
          (s, DrvScalar.render (evalSkip3 (k.eval ex sq) keep3 a b) ++ " " ++ DrvScalar.render (evalSkip4 (k.eval ex sq) keep4 a b))
        -- GaussianTaskKernel over the current points: task T gamma t1..tn ; ttable ; tsetparams p.. gamma ; tsetgamma g
        | "task", .inl T :: g :: ts =>
          match ts.mapM natOf with
          | none => (s, "bad-op")
          | some ts =>
            if ts.length != s.pts.length then (s, "bad-op") else
            let tab := taskTable (k.eval ex sq) ex T (valOf g) (s.pts.zip ts)
            ({ s with tasks := ts, ntasks := T, tgamma := some (valOf g), ttable := some tab }, showMat tab)
        | "tbatch", _ => (s, match s.ttable with | some t => showMat t | none => "bad-op")
        | "tsetparams", ps =>
          if ps.length != k.numParamsA s.ad + 1 || s.ttable.isNone then (s, "bad-op") else
          let vs := ps.map valOf
          let k' := k.setParamsA ex s.ad (vs.take (k.numParamsA s.ad))
          let g := vs.getLastD DrvScalar.zero
          let tab := taskTable (k'.eval ex sq) ex s.ntasks g (s.pts.zip s.tasks)
          ({ s with kern := some k', tgamma := some g, ttable := some tab }, showMat tab)
        | "tsetgamma", [g] =>
          if s.ttable.isNone then (s, "bad-op") else
          let tab := taskTable (k.eval ex sq) ex s.ntasks (valOf g) (s.pts.zip s.tasks)
          ({ s with tgamma := some (valOf g), ttable := some tab }, showMat tab)
        | "mt", .inl 0 :: [.inl i, .inl j] =>      -- mt 0 i j : single evaluation
          match s.ttable with
          | none => (s, "bad-op")
          | some tab => (s, DrvScalar.render (multiTaskEval (k.eval ex sq) tab (pt i, s.tasks.getD i 0) (pt j, s.tasks.getD j 0)))
        | "mt", .inl 1 :: [.inl a, .inl b, .inl c, .inl d] =>   -- mt 1 a b c d : block
          match s.ttable with
          | none => (s, "bad-op")
          | some tab =>
            let data := s.pts.zip s.tasks
            (s, showMat (multiTaskBlock (k.evalBlock ex sq) tab (seg data a b) (seg data c d)))
        | "mt", [.inl 3, .inl _, .inl _] => (s, if s.ttable.isSome then "ok" else "bad-op")   -- thread sweep: oracle only
        | "mt", .inl 2 :: reg :: sizes =>           -- mt 2 reg sizes : Gram matrix
          match s.ttable, sizes.mapM natOf with
          | some tab, some sizes =>
            let n := sizes.foldl (· + ·) 0
            let M := regularizedGram (multiTaskBlock (k.evalBlock ex sq) tab) (valOf reg) (splitSizes (s.pts.zip s.tasks) sizes)
            (s, showMat (M.toRows n n))
          | _, _ => (s, "bad-op")
        | "gram", reg :: sizes =>
          match sizes.mapM natOf with
          | none => (s, "bad-op")
          | some sizes =>
            let n := sizes.foldl (· + ·) 0
            let M := regularizedGram (k.evalBlock ex sq) (valOf reg) (splitSizes s.pts sizes)
            (s, showMat (M.toRows n n))
        | "mixed", .inl nb1 :: sizes =>
          match sizes.mapM natOf with
          | none => (s, "bad-op")
          | some sizes =>
            let s1 := sizes.take nb1
            let s2 := sizes.drop nb1
            let n1 := s1.foldl (· + ·) 0
            let n2 := s2.foldl (· + ·) 0
            let M := mixedGram (k.evalBlock ex sq) (splitSizes s.pts s1) (splitSizes (s.pts.drop n1) s2)
            (s, showMat (M.toRows n1 n2))
        | _, _ => (s, "bad-op")
      | none, some t =>
        let ip (i : Nat) : Nat := s.ipts.getD i 0
        match op, a with
        | "single", [.inl i, .inl j] => (s, DrvScalar.render (discreteEval t (ip i) (ip j)))
        | "block", [.inl a, .inl b, .inl c, .inl d] =>
          (s, showMat (discreteBlock t (seg s.ipts a b) (seg s.ipts c d)))
        | "sblock", [.inl a, .inl b, .inl c, .inl d] =>
          (s, showMat (discreteBlock t (seg s.ipts a b) (seg s.ipts c d)))
        | "dcheck", _ => (s, "ok")
        | "gramt", _ => (s, "ok")
        | "fdist", [.inl i, .inl j] =>
          let k11 := discreteEval t (ip i) (ip i)
          let k12 := discreteEval t (ip i) (ip j)
          let k22 := discreteEval t (ip j) (ip j)
          (s, DrvScalar.render (k11 - two * k12 + k22))
        | "gram", reg :: sizes =>
          match sizes.mapM natOf with
          | none => (s, "bad-op")
          | some sizes =>
            let n := sizes.foldl (· + ·) 0
            let M := regularizedGram (discreteBlock t) (valOf reg) (splitSizes s.ipts sizes)
            (s, showMat (M.toRows n n))
        | _, _ => (s, "bad-op")
      | none, none => (s, "no-kernel")
where
  parseNatOrVal (t : String) : Option (Nat ⊕ α) :=
    match t.toNat? with
    | some n => some (.inl n)
    | none => (parseVal t).map .inr
  natOf : Nat ⊕ α → Option Nat
    | .inl n => some n
    | .inr _ => none
  valOf : Nat ⊕ α → α
    | .inl n => DrvScalar.ofDyadic n 0
    | .inr v => v

partial def loop (h : IO.FS.Stream) (out : IO.FS.Stream) (s : St α) : IO Unit := do
  let line ← h.getLine
  if line.isEmpty then return ()
  let (s', o) := step s line
  out.putStrLn o
  loop h out s'
end

def main (args : List String) : IO Unit := do
  let i ← IO.getStdin
  let o ← IO.getStdout
  match args with
  | ["rat"] => loop (α := Rat) i o {}
  | _ => loop (α := Float) i o {}
