/-
Driver part for the epoch loop of the linear multi-class solvers (`Model/McLinearEpoch.lean`,
QpMcLinear::solve); dispatched from Driver/C16.lean before `C16L.step`.  Same line protocol as harness/c16e.cpp:

  mlrun F Cnum Cshift epsnum epsshift maxiter seed | <one token per epoch: u_0,u_1,..|s_0.s_1...>
  mlrunx ...                                       the same for the model (the harness injects draws, see c16e.cpp)
     u_i : bit patterns of the `random::uni` draws of that epoch (one per example)
     s_j : the schedule after `std::shuffle`
     → ep=<epochs> stop=<QpStopType> it=<ell*epochs> acc=<bits> val=<bits> avg=<bits> psum=<bits>
       W=[..] P=[..] V=[max_violation per epoch] CS=[canstop per epoch] #rat=ok|diff

The data set is the one of the preceding `mldata` op (`St.ds`, set by the dispatcher from `C16L.St.ds`).
The model consumes the recorded draws, builds the schedule itself and CHECKS that the recorded shuffled
schedule is a permutation of it (else `bad-trace`); a trace that is too short or too long is `bad-trace`, too.
The run is an epoch-by-epoch loop over the model's building blocks (`epBuild`, `epEpoch`, `epStopRule`) with the
state re-tabulated after every epoch (`normEp`, the identity on the valid index ranges; keeps evaluation cheap);
for runs of at most 4 epochs `ep stop it acc val avg psum W P` are those of `epSolve` (the model's whole-run
function, the subject of the theorems) and must agree with the loop (else `model-inconsistent`).
Float instance: `floor` = C `floor`, `exp` = C `exp` (same libm as the harness).  Rat instance: `exp` goes
through Float (`expF q = exact value of exp(double(q))`), so ` #rat=ok` (Float run = Rat run exactly on `w`)
can only be expected of runs without rounding; checks/c16.py requires it on lines marked ` #x=1` by the harness
(no floating-point exception and at most 3 epochs; longer runs: ` #rat=skip`).
-/
import SharkVerif.Model.McLinearEpoch
import Driver.C16L
open SharkVerif.Mc

namespace C16E
open C16L (fbits floatToRat Scal arrFn mkArr DataSet mkData norm parseForm parseInts ratTag)

structure St where
  ds : DataSet := {}

def opsFloat : EpOps Float := { floorNat := fun x => (Float.floor x).toUInt64.toNat, expF := Float.exp }

def ratToFloat (q : Rat) : Float := Float.ofInt q.num / Float.ofNat q.den

def opsRat : EpOps Rat :=
  { floorNat := ratFloorNat, expF := fun q => (floatToRat (Float.exp (ratToFloat q))).getD 0 }

section
variable {α : Type} [Add α] [Sub α] [Mul α] [Div α] [Neg α] [NatCast α] [OfScientific α]
  [LT α] [LE α] [DecidableLT α] [DecidableLE α] [BEq α] [Scal α]

/-- re-tabulate the state (identity on the valid index ranges) -/
def normEp (D : MlData α) (s : EpState α) : EpState α :=
  let ap := mkArr D.n s.inner.pref
  { s with inner := { s.inner with st := norm D.n D.d D.classes s.inner.st, pref := arrFn ap (1.0 : α) } }

structure Log (α : Type) where
  s : EpState α
  viol : List α := []
  cs : List Bool := []
  stop : Option EpStop := none
  bad : Bool := false

/-- epoch-by-epoch loop (same building blocks as `epSolve`), with the permutation check when `check` -/
def runLog (F : McForm) (D : MlData α) (E : EpOps α) (maxIter : Nat) (check : Bool)
    (trace : List ((Nat → α) × List Nat)) (s0 : EpState α) : Log α :=
  trace.foldl (fun (l : Log α) (e : (Nat → α) × List Nat) =>
    if l.bad then l
    else if l.stop.isSome then { l with bad := true }           -- trace longer than the run
    else
      let a := epBuild D E l.s e.1
      let buf := acfBuffer l.s.sched a
      -- `pos < ell` (possible in floating point only, see Lemmas/McLinearEpoch.lean) leaves the old tail in place
      if check && (a.pos > D.n || buf.length != D.n || !(buf.isPerm e.2)) then { l with bad := true } else
      let s1 := normEp D (epEpoch F D E l.s e.1 e.2)
      let l1 := { l with viol := l.viol ++ [s1.inner.maxViol], cs := l.cs ++ [l.s.canstop] }
      match epStopRule D maxIter s1 with
      | .inl r => { l1 with s := s1, stop := some r }
      | .inr s2 => { l1 with s := normEp D s2 }) { s := s0 }
end

def sameW (d K : Nat) (f : MlState Float) (q : MlState Rat) : Bool :=
  (List.range (K * d)).all (fun t => floatToRat (f.w (t / d) (t % d)) == some (q.w (t / d) (t % d)))

def parseEpoch (n : Nat) (tok : String) : Option (Array Float × List Nat) :=
  match tok.splitOn "|" with
  | [ds, ss] =>
    match (ds.splitOn ",").mapM String.toNat?, (ss.splitOn ".").mapM String.toNat? with
    | some dr, some sc =>
      if dr.length != n || sc.length != n || sc.any (· ≥ n) then none
      else some ((dr.map fun b => Float.ofBits (UInt64.ofNat b)).toArray, sc)
    | _, _ => none
  | _ => none

def stopCode : EpStop → Nat
  | .accuracy => 1
  | .maxIter => 4

/-- `none`: not an op of this module -/
def step (st : St) (toks : List String) : Option (St × String) :=
  match toks with
  | op :: f :: rest =>
    if op != "mlrun" && op != "mlrunx" then none else
    let args := rest.takeWhile (· ≠ "|")
    let tr := (rest.dropWhile (· ≠ "|")).drop 1
    match parseForm f, parseInts args with
    | some F, some [cn, cs, en, es, mi, _seed] =>
      if st.ds.n = 0 || mi < 0 || cn ≤ 0 then some (st, "bad-op") else
      let n := st.ds.n
      match tr.mapM (parseEpoch n) with
      | none => some (st, "bad-trace")
      | some eps =>
        if eps.isEmpty then some (st, "bad-trace") else
        let df : MlData Float := mkData st.ds (Scal.ofIntShift cn cs.toNat) (Scal.ofIntShift en es.toNat)
        let dq : MlData Rat := mkData st.ds (Scal.ofIntShift cn cs.toNat) (Scal.ofIntShift en es.toNat)
        let trF : List ((Nat → Float) × List Nat) := eps.map fun e => (arrFn e.1 (0.0 : Float), e.2)
        let trQ : List ((Nat → Rat) × List Nat) := eps.map fun e =>
          let a := e.1.map fun x => (floatToRat x).getD 0
          (arrFn a (0 : Rat), e.2)
        let maxIter := mi.toNat
        let lf := runLog F df opsFloat maxIter true trF (normEp df (epInit df))
        if lf.bad || lf.stop.isNone then some (st, "bad-trace") else
        -- the whole-run function `epSolve` builds long closure chains (no re-tabulation): short runs only
        let useSolve := eps.length ≤ 4
        let rf : EpResult Float :=
          if useSolve then epSolve F df opsFloat maxIter trF (epInit df)
          else { final := lf.s, stop := lf.stop, lastStart := lf.s, lastU := fun _ => 0.0, lastSh := [] }
        -- Rat run: runs of at most 3 epochs only (later epochs involve `exp`: never exact, and costly in Rat)
        let useRat := eps.length ≤ 3
        let lq : Log Rat := if useRat then runLog F dq opsRat maxIter false trQ (normEp dq (epInit dq)) else { s := epInit dq, bad := true }
        let d := df.d
        let K := df.classes
        let wOf (s : MlState Float) : String :=
          ",".intercalate ((List.range (K * d)).map fun t => fbits (s.w (t / d) (t % d)))
        if rf.stop != lf.stop || wOf rf.final.inner.st != wOf lf.s.inner.st then some (st, "model-inconsistent") else
        let fin := rf.final
        let code := match rf.stop with | some r => stopCode r | none => 0
        let ps := ",".intercalate ((List.range n).map fun i => fbits (fin.inner.pref i))
        let vs := ",".intercalate (lf.viol.map fbits)
        let cflags := String.join (lf.cs.map fun b => if b then "1" else "0")
        let ratOk := !lq.bad && lq.stop == lf.stop && lq.s.epoch == lf.s.epoch && sameW d K lf.s.inner.st lq.s.inner.st
        some (st, s!"ep={fin.epoch} stop={code} it={n * fin.epoch} acc={fbits fin.inner.maxViol} val={fbits (mlObjective df fin.inner.st)} avg={fbits fin.inner.avgGain} psum={fbits fin.inner.prefsum} W=[{wOf fin.inner.st}] P=[{ps}] V=[{vs}] CS=[{cflags}]" ++ (if useRat then ratTag ratOk else " #rat=skip"))
    | _, _ => some (st, "bad-op")
  | _ => none

end C16E
