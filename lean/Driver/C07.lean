/-
Line-protocol driver for C07: the Float instance of the trainer model
(`Model/SvmTrainer.lean` = problem set-up + `Model/Smo.lean` solver loop + computeBias) is run on the
same integer-point data set as the real `CSvmTrainer` (harness/c07.cpp) and its final coefficients,
bias and stop reason are compared bit-for-bit.
Line: `csvm <bias> <shrink> <C> <eps> <maxit> <n> <d> x(0,0) .. x(n-1,d-1) y0 .. y(n-1)`   (numbers as m@e tokens)
-/
import SharkVerif.Model.SvmTrainer
open SharkVerif.Smo SharkVerif.Qp SharkVerif.SvmTrainer

def floatParts (x : Float) : Option (Bool × Nat × Int) :=
  let b := x.toBits.toNat
  let sign := b >>> 63 == 1
  let ex := (b >>> 52) &&& 0x7ff
  let fr := b &&& (2^52 - 1)
  if ex == 0x7ff then none
  else if ex == 0 then some (sign, fr, -1074) else some (sign, fr + 2^52, (ex : Int) - 1075)

partial def normME (m : Nat) (e : Int) : Nat × Int :=
  if m != 0 && m % 2 == 0 then normME (m / 2) (e + 1) else (m, e)

def floatTok (x : Float) : String :=
  match floatParts x with
  | none => if x.isNaN then "nan" else if x > 0 then "inf" else "-inf"
  | some (sign, m, e) =>
    if m == 0 then (if sign then "-0@0" else "0@0") else
    let (m, e) := normME m e
    s!"{if sign then "-" else ""}{m}@{e}"

def tokFloat (t : String) : Float :=
  match t.splitOn "@" with
  | [m, e] =>
    let neg := m.startsWith "-"
    let mm := (if neg then (m.drop 1).toString else m).toNat!
    let v := (Float.ofNat mm).scaleB e.toInt!
    if neg then -v else v
  | _ => 0.0/0.0

/-- the solver loop with per-iteration tabulation of the state vectors (same definitions as the model's
`solve`, see `Driver/C08.lean`) -/
def tabArr {β : Type} (n : Nat) (f : Nat → β) : Array β := Array.ofFn (n := n) fun i => f i.val
def compact (s : State Float) : State Float :=
  let perm := tabArr s.n s.perm; let lin := tabArr s.n s.lin; let alpha := tabArr s.n s.alpha
  let diag := tabArr s.n s.diag; let L := tabArr s.n s.L; let U := tabArr s.n s.U
  let g := tabArr s.n s.g; let gEdge := tabArr s.n s.gEdge; let lo := tabArr s.n s.lo; let up := tabArr s.n s.up
  { s with perm := fun k => perm.getD k 0, lin := fun k => lin.getD k 0.0, alpha := fun k => alpha.getD k 0.0,
           diag := fun k => diag.getD k 0.0, L := fun k => L.getD k 0.0, U := fun k => U.getD k 0.0,
           g := fun k => g.getD k 0.0, gEdge := fun k => gEdge.getD k 0.0,
           lo := fun k => lo.getD k false, up := fun k => up.getD k false }

partial def solveLoop (strategy : Nat) (eps : Float) (fuel : Nat) (s : State Float) (counter it : Nat) :
    State Float × Bool × Nat :=
  if fuel == 0 then (compact s.unshrink, false, it) else
  let (evs, next) := solveIter strategy eps s counter
  match next with
  | none => (compact ((evs.getLast?.map (·.2)).getD s), true, it)
  | some (s', c') => solveLoop strategy eps (fuel - 1) (compact s') c' (it + 1)

def step (line : String) : String :=
  let toks := (line.trimAscii.toString.splitOn " ").filter (· ≠ "")
  match toks with
  | "csvm" :: bias :: shrink :: C :: eps :: maxit :: nT :: dT :: rest =>
    let n := nT.toNat!; let d := dT.toNat!
    let a := rest.toArray
    if a.size != n * d + n then "bad-op" else
    let x := fun i k => tokFloat (a.getD (i * d + k) "0@0")
    let y := fun i => a.getD (n * d + i) "0" == "1"
    -- linear kernel on integer points: every partial sum is exact, the summation order is irrelevant
    let Karr := Array.ofFn (n := n * n) fun p =>
      (List.range d).foldl (fun acc k => acc + x (p.val / n) k * x (p.val % n) k) 0.0
    let K := fun i j => Karr.getD (i * n + j) 0.0
    let b := bias == "1"
    let s0 := compact (csvmInit n K y (tokFloat C) b (shrink == "1"))
    let (s, acc, it) := solveLoop (if b then 1 else 2) (tokFloat eps) maxit.toNat! s0 0 0
    let al := unpermutedAlpha s 0.0
    let alpha := ",".intercalate ((List.range n).map fun k => floatTok (al k))
    let bv := if b then floatTok (computeBias s (fun c => Float.ofNat c)) else "0@0"
    s!"acc={if acc then 1 else 0} it={it} alpha=[{alpha}] b={bv}"
  | "csvm2" :: bias :: shrink :: _pre :: _cache :: _weighted :: Cn :: Cp :: eps :: maxit :: warmit :: warmfac :: nT :: dT :: rest =>
    -- one C / class-specific C, per-example weights, cold or warm start (precompute/cache do not exist in the model)
    let n := nT.toNat!; let d := dT.toNat!
    let a := rest.toArray
    if a.size != n * d + 2 * n then "bad-op" else
    let x := fun i k => tokFloat (a.getD (i * d + k) "0@0")
    let y := fun i => a.getD (n * d + i) "0" == "1"
    let warr := Array.ofFn (n := n) fun i => tokFloat (a.getD (n * d + n + i.val) "0@0")
    let w := fun i => warr.getD i 0.0
    let Karr := Array.ofFn (n := n * n) fun p =>
      (List.range d).foldl (fun acc k => acc + x (p.val / n) k * x (p.val % n) k) 0.0
    let K := fun i j => Karr.getD (i * n + j) 0.0
    let b := bias == "1"
    let strategy := if b then 1 else 2
    let cn := tokFloat Cn; let cp := tokFloat Cp; let fac := tokFloat warmfac
    let wit := warmit.toNat!
    let sStart :=
      if wit == 0 then compact (csvmInit2 n K y cn cp w b (shrink == "1")) else
      let s1 := (solveLoop strategy (tokFloat eps) wit (compact (csvmInit2 n K y (cn * fac) (cp * fac) w b (shrink == "1"))) 0 0).1
      let a1arr := Array.ofFn (n := n) fun i => unpermutedAlpha s1 0.0 i.val
      let a1 := fun i => a1arr.getD i 0.0
      let s0 := compact (csvmInit2 n K y cn cp w b (shrink == "1"))
      let v := Array.ofFn (n := n) fun i => warmStartVector s0 a1 b i.val
      compact (s0.setInitialSolution (fun i => v.getD i 0.0))
    let (s, acc, it) := solveLoop strategy (tokFloat eps) maxit.toNat! sStart 0 0
    let al := unpermutedAlpha s 0.0
    let alpha := ",".intercalate ((List.range n).map fun k => floatTok (al k))
    let bv := if b then floatTok (computeBias s (fun c => Float.ofNat c)) else "0@0"
    s!"acc={if acc then 1 else 0} it={it} alpha=[{alpha}] b={bv}"
  | "csvm3" :: _kind :: _kern :: _gamma :: bias :: shrink :: _pre :: _cache :: eps :: maxit :: _maxsec :: warmmode :: warmit :: warmfac ::
      _weighted :: Cn :: Cp :: _dbl :: _sparse :: nT :: dT :: rest =>
    -- the same trainer model as `csvm2`; the axes the model does not have (double cache, sparse inputs, real cache sizes) must
    -- not change anything on exact data; warmmode 2 = explicit previous coefficients (the last n tokens)
    let n := nT.toNat!; let d := dT.toNat!
    let a := rest.toArray
    if a.size != n * d + 3 * n then "bad-op" else
    let x := fun i k => tokFloat (a.getD (i * d + k) "0@0")
    let y := fun i => tokFloat (a.getD (n * d + i) "0@0") > 0.0
    let warr := Array.ofFn (n := n) fun i => tokFloat (a.getD (n * d + n + i.val) "0@0")
    let w := fun i => warr.getD i 0.0
    let a1given := Array.ofFn (n := n) fun i => tokFloat (a.getD (n * d + 2 * n + i.val) "0@0")
    let Karr := Array.ofFn (n := n * n) fun p =>
      (List.range d).foldl (fun acc k => acc + x (p.val / n) k * x (p.val % n) k) 0.0
    let K := fun i j => Karr.getD (i * n + j) 0.0
    let b := bias == "1"
    let strategy := if b then 1 else 2
    let cn := tokFloat Cn; let cp := tokFloat Cp; let fac := tokFloat warmfac
    let wit := warmit.toNat!
    let s0 := compact (csvmInit2 n K y cn cp w b (shrink == "1"))
    let sStart :=
      if warmmode == "0" then s0 else
      let a1arr :=
        if warmmode == "2" then a1given else
        let s1 := (solveLoop strategy (tokFloat eps) wit (compact (csvmInit2 n K y (cn * fac) (cp * fac) w b (shrink == "1"))) 0 0).1
        Array.ofFn (n := n) fun i => unpermutedAlpha s1 0.0 i.val
      let a1 := fun i => a1arr.getD i 0.0
      let v := Array.ofFn (n := n) fun i => warmStartVector s0 a1 b i.val
      compact (s0.setInitialSolution (fun i => v.getD i 0.0))
    let (s, acc, it) := solveLoop strategy (tokFloat eps) maxit.toNat! sStart 0 0
    let al := unpermutedAlpha s 0.0
    let alpha := ",".intercalate ((List.range n).map fun k => floatTok (al k))
    let bv := if b then floatTok (computeBias s (fun c => Float.ofNat c)) else "0@0"
    s!"acc={if acc then 1 else 0} it={it} alpha=[{alpha}] b={bv}"
  | "esvr" :: shrink :: C :: tube :: eps :: maxit :: nT :: dT :: rest =>
    -- epsilon-regression
    let n := nT.toNat!; let d := dT.toNat!
    let a := rest.toArray
    if a.size != n * d + n then "bad-op" else
    let x := fun i k => tokFloat (a.getD (i * d + k) "0@0")
    let y := fun i => tokFloat (a.getD (n * d + i) "0@0")
    let Karr := Array.ofFn (n := n * n) fun p =>
      (List.range d).foldl (fun acc k => acc + x (p.val / n) k * x (p.val % n) k) 0.0
    let K := fun i j => Karr.getD (i * n + j) 0.0
    let s0 := compact (epsInit n K y (tokFloat C) (tokFloat tube) (shrink == "1"))
    let (s, acc, it) := solveLoop 1 (tokFloat eps) maxit.toNat! s0 0 0
    let al := epsCoefficients n s 0.0
    let alpha := ",".intercalate ((List.range n).map fun k => floatTok (al k))
    let bv := floatTok (epsOffset s (fun c => Float.ofNat c))
    s!"acc={if acc then 1 else 0} it={it} alpha=[{alpha}] b={bv}"
  | "ocsvm" :: shrink :: nu :: eps :: maxit :: nT :: dT :: rest =>
    let n := nT.toNat!; let d := dT.toNat!
    let a := rest.toArray
    if a.size != n * d then "bad-op" else
    let x := fun i k => tokFloat (a.getD (i * d + k) "0@0")
    let Karr := Array.ofFn (n := n * n) fun p =>
      (List.range d).foldl (fun acc k => acc + x (p.val / n) k * x (p.val % n) k) 0.0
    let K := fun i j => Karr.getD (i * n + j) 0.0
    let nuF := tokFloat nu
    let s0 := compact (oneClassInit n K nuF (Float.ofNat n) (shrink == "1"))
    let (s, acc, it) := solveLoop 1 (tokFloat eps) maxit.toNat! s0 0 0
    let al := unpermutedAlpha s 0.0
    let alpha := ",".intercalate ((List.range n).map fun k => floatTok (al k))
    let bv := floatTok (oneClassOffset s (1.0 / (nuF * Float.ofNat n)) (fun c => Float.ofNat c))
    s!"acc={if acc then 1 else 0} it={it} alpha=[{alpha}] b={bv}"
  | [] => ""
  | _ => "bad-op"

partial def loop (h : IO.FS.Stream) (o : IO.FS.Stream) : IO Unit := do
  let line ← h.getLine
  if line.isEmpty then return ()
  o.putStrLn (step line)
  loop h o

def main : IO Unit := do
  loop (← IO.getStdin) (← IO.getStdout)
