#!/usr/bin/env python3
"""Driver wrapper for ops whose result depends on the library's RNG.

usage: obsfeed.py <rng-op,rng-op,...> <harness cmd...> -- <driver cmd...>

Reads op lines from stdin.  Ops named in the first argument (e.g. `shuffle`)
have a random outcome in the real code; the C++ harness prints what it observed
as `obs=[...]` on its output line.  This wrapper runs the harness on the ops,
appends the observation to those op lines (`<op> ! n0 n1 ...`) and pipes the
result through the Lean driver, which *checks* the observation against the
model's specification relation (a permutation / a valid fold assignment) and
applies it.  Ops without RNG are passed through unchanged, and if no RNG op is
present the harness is not run at all.
"""
import os, re, subprocess, sys


def main():
    rng_ops = set(sys.argv[1].split(","))
    rest = sys.argv[2:]
    k = rest.index("--")
    hcmd, dcmd = rest[:k], rest[k + 1:]
    lines = sys.stdin.read().splitlines()
    need = [i for i, l in enumerate(lines) if l.split() and l.split()[0] in rng_ops and "!" not in l]
    if need:
        env = dict(os.environ)
        env.setdefault("ASAN_OPTIONS", "detect_leaks=0:abort_on_error=0")
        p = subprocess.run(hcmd, input="\n".join(lines) + "\n", stdout=subprocess.PIPE, stderr=subprocess.DEVNULL,
                           text=True, errors="replace", env=env)
        out = p.stdout.splitlines()
        for i in need:
            if i < len(out):
                m = re.search(r"\bobs=\[([0-9 ,;]*)\]", out[i])
                if m:
                    lines[i] = lines[i] + " ! " + m.group(1).replace(",", " ")
    d = subprocess.run(dcmd, input="\n".join(lines) + "\n", stdout=subprocess.PIPE, text=True, errors="replace")
    sys.stdout.write(d.stdout)
    return d.returncode


if __name__ == "__main__":
    sys.exit(main())
