#!/usr/bin/env python3
"""seed_matrix.py [--lane K] [--verif DIR] [--tier quick] [--out FILE] NAME|PID ...

Run the checks against the seeded breaking changes (seeded/<name>/patch.diff) and record which are caught.
For each selected seeded change: a scratch worktree of /repo (/var/tmp/sm-lane<K>, re-used inside a lane so that
only the translation units depending on the patched file are recompiled) gets the patch, the property's check is
run with VERIF_REPO pointing at it, and the outcome is classified:

  concrete   exit 1 and a VIOLATION line without `no-failing-input-found`
  no-input   exit 1, only VIOLATION ... no-failing-input-found lines
  MISSED     exit 0 (no VIOLATION line)

The clean scratch tree is checked first per property (must be exit 0) so that an alarm is attributable to the patch.
Results are merged into seeded/MATRIX.json (one entry per seeded change) and rendered to seeded/MATRIX.md.
--verif DIR runs the checks of another working copy of the framework (a lane's own git worktree of /verif), so that
lanes can run in parallel without sharing lean/SharkVerif/Gen or the harness cache."""
import argparse, json, os, re, subprocess, sys, time
HERE = os.path.dirname(os.path.dirname(os.path.abspath(__file__)))
ap = argparse.ArgumentParser()
ap.add_argument("names", nargs="*")
ap.add_argument("--lane", default="0"); ap.add_argument("--verif", default=HERE)
ap.add_argument("--tier", default="quick"); ap.add_argument("--seed", default="1")
ap.add_argument("--out", default=os.path.join(HERE, "seeded", "MATRIX.json"))
ap.add_argument("--skip-clean", action="store_true")
a = ap.parse_args()
SD = os.path.join(HERE, "seeded")
allseeds = sorted(d for d in os.listdir(SD) if os.path.isfile(os.path.join(SD, d, "patch.diff")))
sel = [d for d in allseeds if not a.names or d in a.names or d.split("-")[0] in [n.upper() for n in a.names]]
wt = f"/var/tmp/sm-lane{a.lane}"

def sh(cmd, **kw):
    return subprocess.run(cmd, stdout=subprocess.PIPE, stderr=subprocess.STDOUT, text=True, errors="replace", **kw)

def run_check(pid):
    env = dict(os.environ, VERIF_REPO=wt, VERIF_SEED=a.seed)
    t = time.time()
    r = sh(["./check", pid, "--tier", a.tier], cwd=a.verif, env=env, timeout=7200)
    vio = [l for l in r.stdout.splitlines() if l.startswith("VIOLATION")]
    known = [l for l in r.stdout.splitlines() if l.startswith("KNOWN-FINDING")]
    whats = []
    for l in vio:
        m = re.search(r"replay=(\S+)", l)
        try:
            rep = json.load(open(m.group(1)))
            whats.append((rep.get("key", "")[:100], str(rep.get("ops", ""))[:160]))
        except Exception:
            pass
    return r.returncode, vio, known, whats, round(time.time() - t), r.stdout[-1500:]

if not os.path.isdir(wt):
    r = sh(["git", "-C", "/repo", "worktree", "add", "--detach", wt, "HEAD"])
    if r.returncode: sys.exit("cannot create worktree: " + r.stdout)
sh(["git", "-C", wt, "checkout", "--", "."]); sh(["git", "-C", wt, "checkout", "-q", "--detach", sh(["git", "-C", "/repo", "rev-parse", "HEAD"]).stdout.strip()])
res = {}
clean_ok = {}
try:
    for name in sel:
        pid = name.split("-")[0]
        if pid not in clean_ok and not a.skip_clean:
            rc, vio, known, _, secs, tail = run_check(pid)
            clean_ok[pid] = (rc == 0 and not vio)
            print(f"[lane {a.lane}] {pid} clean scratch tree: rc={rc} violations={len(vio)} ({secs}s)", flush=True)
            if not clean_ok[pid]:
                print(tail, flush=True)
        try: sup = json.load(open(os.path.join(SD, name, "meta.json"))).get("superseded_by")
        except Exception: sup = None
        if sup:
            res[name] = {"result": "superseded", "detail": sup}
            print(f"[lane {a.lane}] {name}: superseded by /repo {sup.get('repo_commit')}", flush=True)
            continue
        r = sh(["git", "-C", wt, "apply", os.path.join(SD, name, "patch.diff")])
        if r.returncode:
            # the tree moved on (fix: commits): try a 3-way application of the same change
            r = sh(["git", "-C", wt, "apply", "--3way", os.path.join(SD, name, "patch.diff")])
            if r.returncode == 0 and "with conflicts" not in r.stdout: sh(["git", "-C", wt, "reset", "-q"])
            else: sh(["git", "-C", wt, "reset", "-q", "--hard"]); r.returncode = 1
        if r.returncode:
            res[name] = {"result": "patch-does-not-apply", "detail": r.stdout[-300:]}
            print(f"[lane {a.lane}] {name}: patch does not apply", flush=True)
            sh(["git", "-C", wt, "checkout", "--", "."]); continue
        rc, vio, known, whats, secs, tail = run_check(pid)
        sh(["git", "-C", wt, "checkout", "--", "."])
        concrete = [l for l in vio if "no-failing-input-found" not in l]
        result = "MISSED" if (rc == 0 and not vio) else ("concrete" if concrete else "no-input")
        res[name] = {"property": pid, "result": result, "exit": rc, "violations": len(vio), "concrete": len(concrete),
                     "keys": whats[:4], "tier": a.tier, "seed": a.seed, "wall_s": secs,
                     "clean_tree_green": clean_ok.get(pid), "framework_commit": sh(["git", "-C", a.verif, "rev-parse", "--short", "HEAD"]).stdout.strip(),
                     "repo_commit": sh(["git", "-C", "/repo", "rev-parse", "--short", "HEAD"]).stdout.strip(),
                     "when": time.strftime("%Y-%m-%d %H:%M")}
        print(f"[lane {a.lane}] {name}: {result} (rc={rc}, {len(vio)} VIOLATION lines, {secs}s) {whats[:1]}", flush=True)
        if result == "MISSED": print(tail[-600:], flush=True)
        # merge into the matrix file after every seed (lanes write the same file: lock by rename)
        import fcntl
        with open(a.out + ".lock", "w") as lk:
            fcntl.flock(lk, fcntl.LOCK_EX)
            try: cur = json.load(open(a.out))
            except Exception: cur = {}
            cur[name] = res[name]
            json.dump(cur, open(a.out, "w"), indent=1, sort_keys=True)
            with open(os.path.join(SD, "MATRIX.md"), "w") as f:
                f.write("# Seeded breaking changes × checks (written by tools/seed_matrix.py; quick tier unless noted)\n\n")
                f.write("| seeded change | result | VIOLATION lines (concrete) | first key | framework / repo commit |\n|---|---|---|---|---|\n")
                for k in sorted(cur):
                    v = cur[k]
                    if "property" not in v: f.write(f"| {k} | {v['result']} | | | |\n"); continue
                    key = (v["keys"][0][0] if v["keys"] else "").replace("|", "\\|")
                    f.write(f"| {k} | {v['result']} | {v['violations']} ({v['concrete']}) | `{key}` | {v['framework_commit']} / {v['repo_commit']} |\n")
finally:
    sh(["git", "-C", wt, "checkout", "--", "."])
    sh(["git", "-C", "/repo", "worktree", "remove", "--force", wt])
missed = [k for k, v in res.items() if v["result"] == "MISSED"]
print(f"[lane {a.lane}] done: {len(res)} seeded changes, missed: {missed}")
