#!/usr/bin/env python3
"""resolve DESIGN.md merge conflicts by keeping the HEAD side of each conflict block (the integrator's text);
branch-only additions outside conflict blocks are kept by git"""
import re,sys
p='/verif/DESIGN.md'
s=open(p).read()
n=0
def keep_head(m):
    global n; n+=1
    return m.group(1)
s=re.sub(r'<<<<<<< HEAD\n(.*?)=======\n.*?>>>>>>> [^\n]*\n',keep_head,s,flags=re.S)
open(p,'w').write(s)
print('resolved',n,'conflict blocks (HEAD side kept)')
