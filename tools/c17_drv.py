#!/usr/bin/env python3
"""Driver side of K-C17: feed the Lean driver with the op lines as annotated by
harness/c17.cpp (real tree dump, per-node bounds).  The harness, which ran just
before on the same stdin, left them in <annot-dir>/<fnv1a64(stdin)>.ops.

usage: c17_drv.py <drv_c17> <annot-dir>      (ops on stdin)"""
import os, subprocess, sys

def fnv(data):
    lines = data.split(b"\n")
    if lines and lines[-1] == b"":
        lines.pop()
    h = 1469598103934665603
    M = (1 << 64) - 1
    for ln in lines:
        for c in ln + b"\n":
            h = ((h ^ c) * 1099511628211) & M
    return h

def main():
    drv, d = sys.argv[1], sys.argv[2]
    data = sys.stdin.buffer.read()
    path = os.path.join(d, "%x.ops" % fnv(data))
    if not os.path.exists(path):
        # harness died before writing the annotation: nothing to compare with
        print("no-annotation (harness did not finish)")
        return 0
    with open(path, "rb") as f:
        ops = f.read()
    try:
        os.unlink(path)
    except OSError:
        pass
    p = subprocess.run([drv], input=ops, stdout=subprocess.PIPE, stderr=subprocess.PIPE)
    sys.stdout.buffer.write(p.stdout)
    # statistics of the driver (lines `STAT key value ...`) for the evidence; everything else stays on stderr
    stats = [l for l in p.stderr.splitlines() if l.startswith(b"STAT ")]
    rest = [l for l in p.stderr.splitlines() if not l.startswith(b"STAT ")]
    if stats:
        with open(os.path.join(d, "stats.txt"), "ab") as f:
            f.write(b"\n".join(stats) + b"\n")
    if rest:
        sys.stderr.buffer.write(b"\n".join(rest) + b"\n")
    return p.returncode

if __name__ == "__main__":
    sys.exit(main())
