#!/usr/bin/env python3
"""matrix_finalize.py [extra.json ...] : merge extra result files into seeded/MATRIX.json (later files win), add the
seeded changes marked `superseded_by` in their meta.json, and re-render seeded/MATRIX.md with a summary."""
import json, os, sys, collections
V = os.path.dirname(os.path.dirname(os.path.abspath(__file__)))
SD = os.path.join(V, "seeded")
p = os.path.join(SD, "MATRIX.json")
try: cur = json.load(open(p))
except Exception: cur = {}
for extra in sys.argv[1:]:
    try: cur.update(json.load(open(extra)))
    except Exception as e: print("skip", extra, e)
names = sorted(d for d in os.listdir(SD) if os.path.isfile(os.path.join(SD, d, "patch.diff")))
for n in names:
    try: sup = json.load(open(os.path.join(SD, n, "meta.json"))).get("superseded_by")
    except Exception: sup = None
    if sup: cur[n] = {"result": "superseded", "detail": sup}
json.dump(cur, open(p, "w"), indent=1, sort_keys=True)
cnt = collections.Counter(v["result"] for v in cur.values())
missing = [n for n in names if n not in cur]
with open(os.path.join(SD, "MATRIX.md"), "w") as f:
    f.write("# Seeded breaking changes × checks (tools/seed_matrix.py, quick tier, VERIF_SEED=1; finalised by tools/matrix_finalize.py)\n\n")
    f.write(f"{len(names)} confirmed seeded changes; results: " + ", ".join(f"{k}: {v}" for k, v in sorted(cnt.items())) +
            (f"; not run: {missing}" if missing else "") + ".\n\n")
    f.write("* **concrete** — the check exits 1 and at least one VIOLATION line carries a concrete failing input (oracle / sanitizer / named finding)\n"
            "* **no-input** — the check exits 1, but only with `no-failing-input-found` lines (a proof obligation or the correspondence broke)\n"
            "* **MISSED** — the check exits 0\n"
            "* **superseded** — a later repair of /repo rewrote the code the change patches; the entry records how it was caught before\n\n")
    f.write("| seeded change | result | VIOLATION lines (concrete) | first key / detail | framework / repo commit |\n|---|---|---|---|---|\n")
    for k in sorted(cur):
        v = cur[k]
        if v["result"] == "superseded":
            d = v["detail"]
            f.write(f"| {k} | superseded by /repo {d.get('repo_commit')} | | {d.get('last_result','')[:200].replace('|','/')} | |\n"); continue
        if "property" not in v: f.write(f"| {k} | {v['result']} | | | |\n"); continue
        key = (v["keys"][0][0] if v["keys"] else "").replace("|", "\\|")
        f.write(f"| {k} | {v['result']} | {v['violations']} ({v['concrete']}) | `{key}` | {v['framework_commit']} / {v['repo_commit']} |\n")
print(dict(cnt), "missing:", missing)
