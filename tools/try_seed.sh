#!/bin/bash
# try_seed.sh <worktree> <i> <PROP> : apply seeded patch i in the worktree, run the property's check against it, restore
wt=$1; i=$2; prop=$3
git -C $wt checkout -q -- . && git -C $wt apply $wt/out/$i/patch.diff || exit 2
(cd /verif && VERIF_REPO=$wt ./check $prop 2>&1 | grep -E "VIOLATION|KNOWN-FINDING: property=[A-Z0-9]+ .{0,60}|done:" | cut -c1-170 | head -8)
git -C $wt checkout -q -- .
