#!/usr/bin/env python3
"""validate MANIFEST.json and evidence files against the schemas (run with python3-vt)"""
import json, sys, glob, jsonschema
ms = json.load(open('/root/.vp/MANIFEST.schema.json')); es = json.load(open('/root/.vp/EVIDENCE.schema.json'))
man = json.load(open('/verif/MANIFEST.json'))
jsonschema.validate(man, ms)
ids = {json.loads(l)['id'] for l in open('/verif/properties.jsonl')}
cl = {c['property_id'] for c in man['checks']}; na = {c['property_id'] for c in man.get('not_applicable', [])}
assert cl | na == ids and not (cl & na), (ids - cl - na, cl & na)
for f in sorted(glob.glob('/verif/evidence/*.json')):
    e = json.load(open(f)); jsonschema.validate(e, es)
    c = e['coverage']
    print(f.split('/')[-1], e['tier'], 'obl', c.get('obligations'), 'disch', c.get('discharged'), 'viol', e.get('violations'), 'wall', e['wall_s'])
print('MANIFEST + evidence valid; claimed', sorted(cl))
