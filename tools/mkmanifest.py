#!/usr/bin/env python3
"""Regenerates MANIFEST.json from the table below (kept in one place so that the
manifest stays schema-valid). Run: python3 tools/mkmanifest.py"""
import json, os, subprocess
V = os.path.dirname(os.path.dirname(os.path.abspath(__file__)))

import importlib, sys
sys.path.insert(0, V)
CLAIMED = {}
for i in range(1, 21):
    pid = f"C{i:02d}"
    if os.path.exists(os.path.join(V, "checks", pid.lower() + ".py")):
        mod = importlib.import_module(f"checks.{pid.lower()}")
        if getattr(mod, "MANIFEST", None):
            CLAIMED[pid] = mod.MANIFEST

NOT_YET = {}
try:
    NOT_YET = json.load(open(os.path.join(V, "tools", "not_claimed.json")))
except OSError:
    pass
props = [json.loads(l) for l in open(os.path.join(V, "properties.jsonl"))]
checks, na = [], []
for p in props:
    pid = p["id"]
    if pid in CLAIMED:
        c = CLAIMED[pid]
        checks.append({
            "property_id": pid,
            "quick_cmd": f"./check {pid} --tier quick",
            "thorough_cmd": f"./check {pid} --tier thorough",
            "evidence_file": f"/verif/evidence/{pid}.json",
            "replay_cmd_template": f"./check {pid} --replay {{path}}",
            "engine": "lean4-proof+correspondence",
            "level_claimed": {"category": "proof", "text": c["text"], "design_ref": c["design"]},
            "level_note": c["note"],
            "technique": c["technique"],
        })
    else:
        na.append({"property_id": pid, "reason": NOT_YET.get(pid, "check not built yet at this commit (planned, see DESIGN.md §6); not claimed until its theorems and correspondence are green on the tree")})

hooks = []
try:
    out = subprocess.check_output(["git", "-C", "/repo", "log", "--format=%h %s"], text=True)
    hooks = [l.split()[0] for l in out.splitlines() if l.split(" ", 1)[1].startswith("verif-hook:")]
except Exception:
    pass
man = {
 "version": 1,
 "setup_cmd": "./setup",
 "hooks": {
  "guard": "SHARK_ML_SHARK_VERIF",
  "enable": "-DSHARK_ML_SHARK_VERIF on the harness compile line (vlib/core.py BASE_FLAGS); harnesses compile the repo sources themselves, the pinned CMake build never defines it",
  "baseline_off_cmd": "cmake --build /repo/_build -j16 -- -k 0; ctest --test-dir /repo/_build -j8 --timeout 900",
  "source_commits": hooks,
  "add_only": True,
 },
 "engines": [{"name": "lean4-proof+correspondence", "path": "/verif/lean", "serves_properties": [c["property_id"] for c in checks],
              "kind_free_text": "Lean 4 models + theorems (lake project /verif/lean), translators under /verif/translate, C++ correspondence harnesses under /verif/harness, orchestrated by /verif/check"}],
 "checks": checks,
 "not_applicable": na,
 "notes": "All checks rebuild harnesses from /repo's working tree (dependency-hash cache under /verif/.cache). VERIF_REPO overrides the repo path for scratch worktrees.",
}
json.dump(man, open(os.path.join(V, "MANIFEST.json"), "w"), indent=1)
print("checks:", [c["property_id"] for c in checks], "not claimed:", len(na))
