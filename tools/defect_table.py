#!/usr/bin/env python3
"""defect_table.py [--write] : render the per-property defect table of DESIGN.md §14 from known_findings.json
(`fixed` entries: 'fixed: property=<id> <commit> <finding-id> <what failed>'; `findings`: open entries).
--write replaces the region between the markers <!-- defect-table:begin --> and <!-- defect-table:end --> in DESIGN.md."""
import json, os, re, sys, subprocess
V = os.path.dirname(os.path.dirname(os.path.abspath(__file__)))
k = json.load(open(os.path.join(V, "known_findings.json")))
fixed, opened = {}, {}
for s in k["fixed"]:
    m = re.match(r"fixed: property=(\S+) (\S+) (.*)", s)
    if not m: continue
    fixed.setdefault(m.group(1), []).append((m.group(2), m.group(3)))
for f in k["findings"]:
    opened.setdefault(f["property"], []).append(f)
def short(t, n=110):
    t = " ".join(t.split()).replace("|", "/")
    return t if len(t) <= n else t[:n - 1].rsplit(" ", 1)[0] + " …"
lines = ["| property | repaired in /repo (`fix:` commits) | still open (known finding: why not repaired) |", "|---|---|---|"]
nf = no = 0
for i in range(1, 21):
    p = f"C{i:02d}"
    fx = fixed.get(p, []); op = opened.get(p, [])
    nf += len(fx); no += len(op)
    a = f"{len(fx)}: " + "; ".join(f"`{c[:8]}` {short(t, 70)}" for c, t in fx) if fx else "—"
    b = "; ".join(f"**{f['id']}** {short(f['what'], 150)} — *{short(f.get('why_not_fixed', ''), 120)}*" for f in op) if op else "—"
    lines.append(f"| {p} | {a} | {b} |")
lines.append("")
lines.append(f"Totals: {nf} defects repaired by `fix:` commits, {no} open known findings "
             f"(`git -C /repo log --grep '^fix:' --oneline | wc -l` = number of fix commits; some defects needed a follow-up commit, C03 and C12 share commits).")
out = "\n".join(lines)
if "--write" in sys.argv:
    p = os.path.join(V, "DESIGN.md"); s = open(p).read()
    b, e = "<!-- defect-table:begin -->", "<!-- defect-table:end -->"
    if b not in s: sys.exit("markers missing in DESIGN.md")
    s = s[:s.index(b) + len(b)] + "\n" + out + "\n" + s[s.index(e):]
    open(p, "w").write(s); print("DESIGN.md defect table rewritten:", nf, "fixed,", no, "open")
else:
    print(out)
