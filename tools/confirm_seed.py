#!/usr/bin/env python3
"""Confirm a seeded breaking change myself (in its scratch worktree) and, if confirmed, keep it
under /verif/seeded/<name>/: patch.diff, demo.cpp, README.md (the author's), meta.json.

usage: confirm_seed.py <worktree> <out-subdir> <name> <property> --tests Test/a.cpp Test/b.cpp [--src src/x.cpp] [--tsan]
Checks: demo exits 0 on the clean tree, 1 with the patch; every listed existing test compiles and passes with the patch."""
import argparse, json, os, shutil, subprocess, sys, time
ap = argparse.ArgumentParser()
ap.add_argument("wt"); ap.add_argument("sub"); ap.add_argument("name"); ap.add_argument("prop")
ap.add_argument("--tests", nargs="*", default=[]); ap.add_argument("--src", nargs="*", default=["src/Core/Random.cpp"])
ap.add_argument("--libshark", action="store_true"); ap.add_argument("--needs", default="")
ap.add_argument("--cxxflags", nargs="*", default=[]); ap.add_argument("--demo-runs", type=int, default=1); ap.add_argument("--tsan", action="store_true")
a = ap.parse_args()
wt, out = a.wt, os.path.join(a.wt, "out", a.sub)
work = f"/var/tmp/seedwork-{a.name}"; os.makedirs(work, exist_ok=True)
F = ["-std=c++11", "-O1", "-g", "-DNDEBUG", "-w", "-fopenmp", f"-I{wt}/include", "-I/repo/_build/include"]
F += ["-D" + d for d in a.cxxflags]
L = ["-lboost_serialization", "-lboost_system", "-lboost_filesystem", "-lopenblas"]
def sh(cmd, **kw):
    return subprocess.run(cmd, capture_output=True, text=True, **kw)
def git(*args): return sh(["git", "-C", wt, *args])
def build_demo(tag):
    exe = f"{work}/demo_{tag}"
    cc = ["clang++-14", "-std=c++14", "-O1", "-g", "-DNDEBUG", "-w", "-fopenmp", "-fsanitize=thread", f"-I{wt}/include", "-I/repo/_build/include"] if a.tsan else ["g++", *F]
    r = sh([*cc, f"{out}/demo.cpp", *[f"{wt}/{s}" for s in a.src], "-o", exe, *L])
    if r.returncode: print("demo compile failed:", r.stderr[-1500:]); sys.exit(2)
    return exe
def run_demo(exe):
    worst = 0
    env = dict(os.environ, TSAN_OPTIONS="ignore_noninstrumented_modules=1")
    for _ in range(a.demo_runs):
        r = sh([exe], timeout=1200, env=env); worst = max(worst, r.returncode if r.returncode >= 0 else 1)
    return worst
git("checkout", "--", ".")
res = {"property": a.prop, "name": a.name, "needs_to_manifest": a.needs, "confirmed_at": time.strftime("%Y-%m-%d %H:%M"), "ran": []}
rc_clean = run_demo(build_demo("clean")); res["demo_exit_clean"] = rc_clean
r = git("apply", f"{out}/patch.diff")
if r.returncode: print("patch does not apply", r.stderr); sys.exit(2)
rc_patched = run_demo(build_demo("patched")); res["demo_exit_patched"] = rc_patched
tests_ok = True
for t in a.tests:
    exe = f"{work}/t_{os.path.basename(t)[:-4]}"
    cmd = ["g++", *F, "-DBOOST_TEST_DYN_LINK", f"{wt}/{t}", *[f"{wt}/{s}" for s in a.src], "-o", exe, "-lboost_unit_test_framework", *L]
    if a.libshark: cmd.insert(-5, "/repo/_build/lib/libshark.a")
    r = sh(cmd)
    if r.returncode:
        print("test compile failed", t, r.stderr[-1200:]); tests_ok = False; res["ran"].append({"test": t, "result": "compile-failed"}); continue
    r = sh([exe], timeout=1800, cwd=f"{wt}/Test")
    ok = r.returncode == 0
    res["ran"].append({"test": t, "result": "pass" if ok else "FAIL", "tail": (r.stdout + r.stderr)[-200:]})
    tests_ok &= ok
git("checkout", "--", ".")
res["existing_tests_pass_with_patch"] = tests_ok
confirmed = rc_clean == 0 and rc_patched != 0 and tests_ok
res["confirmed"] = confirmed
print(json.dumps(res, indent=1))
if confirmed:
    dst = f"/verif/seeded/{a.name}"; os.makedirs(dst, exist_ok=True)
    for f in ("patch.diff", "demo.cpp", "README.md"):
        if os.path.exists(f"{out}/{f}"): shutil.copy(f"{out}/{f}", f"{dst}/{f}")
    json.dump(res, open(f"{dst}/meta.json", "w"), indent=1)
shutil.rmtree(work, ignore_errors=True)
sys.exit(0 if confirmed else 1)
