#!/usr/bin/env python3
"""resolve DESIGN.md merge conflicts by keeping BOTH sides of every conflict block (HEAD first)"""
import re
p='/verif/DESIGN.md'; s=open(p).read(); n=0
def both(m):
    global n; n+=1; return m.group(1)+m.group(2)
s=re.sub(r'<<<<<<< HEAD\n(.*?)=======\n(.*?)>>>>>>> [^\n]*\n', both, s, flags=re.S)
open(p,'w').write(s); print('resolved', n, 'blocks (both sides kept)')
