#!/usr/bin/env python3
"""mark_fixed.py <finding-id> <repo-commit> [short text] : move an open entry of known_findings.json to `fixed`
(a fixed entry suppresses nothing; it records which /repo commit repaired which failing input)."""
import json, os, sys
p = os.path.join(os.path.dirname(os.path.dirname(os.path.abspath(__file__))), "known_findings.json")
k = json.load(open(p)); fid, commit = sys.argv[1], sys.argv[2]
hit = [f for f in k["findings"] if f["id"] == fid]
if not hit: sys.exit(f"no open finding {fid}")
f = hit[0]; k["findings"] = [g for g in k["findings"] if g["id"] != fid]
text = sys.argv[3] if len(sys.argv) > 3 else f["what"][:300]
k["fixed"].append(f"fixed: property={f['property']} {commit} {fid} {text}")
json.dump(k, open(p, "w"), indent=1)
print("fixed:", fid, "open now:", [g["id"] for g in k["findings"]])
