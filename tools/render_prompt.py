#!/usr/bin/env python3
"""render_prompt.py seed <PID> <worktree> [N] [hours]   |   deepen|strengthen <PID> <worktree> <branch> <hours> [focus/misses text file]
Prints the sub-agent prompt. The seeder prompt contains ONLY the property text and the names of earlier seeded changes
(nothing else from /verif)."""
import json, os, sys
V = os.path.dirname(os.path.dirname(os.path.abspath(__file__)))
props = {json.loads(l)["id"]: json.loads(l) for l in open(os.path.join(V, "properties.jsonl"))}
kind, pid, wt = sys.argv[1], sys.argv[2].upper(), sys.argv[3]
p = props[pid]
if kind == "seed":
    n = sys.argv[4] if len(sys.argv) > 4 else "2"; hours = sys.argv[5] if len(sys.argv) > 5 else "2"
    avoid = []
    for d in sorted(os.listdir(os.path.join(V, "seeded"))):
        if d.startswith(pid + "-"):
            try: m = json.load(open(os.path.join(V, "seeded", d, "meta.json")))
            except OSError: m = {}
            avoid.append(f"{d[len(pid)+1:]} ({m.get('needs_to_manifest','')})")
    t = open(os.path.join(V, "tools", "seed_prompt.md")).read()
    anchors = p.get("anchors"); anchors = json.dumps(anchors) if not isinstance(anchors, str) else anchors
    for k, v in {"WT": wt, "PID": pid, "TITLE": p["title"], "STATEMENT": p["statement"], "QUANTIFIER": (p["quantifier"].get("text") if isinstance(p["quantifier"], dict) else p["quantifier"]),
                 "WHY": p["why_tests_cant"], "ANCHORS": anchors, "N": n, "HOURS": hours, "TAG": "seed-" + pid.lower(),
                 "AVOID": "; ".join(avoid) or "none"}.items():
        t = t.replace("{" + k + "}", str(v))
    print(t)
else:
    br, hours = sys.argv[4], sys.argv[5]
    extra = open(sys.argv[6]).read() if len(sys.argv) > 6 else ""
    t = open(os.path.join(V, "tools", f"{kind}_prompt.md")).read()
    for k, v in {"WT": wt, "BR": br, "PID": pid, "pid": pid.lower(), "HOURS": hours, "FOCUS": extra, "MISSES": extra}.items():
        t = t.replace("{" + k + "}", str(v))
    print(t)
