#!/bin/bash
# merge an agent branch into main: union known_findings.json, regenerate MANIFEST.json
set -e
cd /verif
br=$1
git merge --no-commit "$br" || true
git show "$br":known_findings.json > /tmp/kf_b.json 2>/dev/null || echo '{"findings":[],"fixed":[]}' > /tmp/kf_b.json
git show HEAD:known_findings.json > /tmp/kf_a.json
python3 - <<'PY'
import json
a=json.load(open('/tmp/kf_a.json')); b=json.load(open('/tmp/kf_b.json'))
ids={f['id'] for f in a['findings']}
for f in b.get('findings',[]):
    if f['id'] not in ids: a['findings'].append(f)
for s in b.get('fixed',[]):
    if s not in a['fixed']: a['fixed'].append(s)
json.dump(a,open('/verif/known_findings.json','w'),indent=1)
print('findings:',[f['id'] for f in a['findings']],'fixed:',len(a['fixed']))
PY
git checkout HEAD -- evidence 2>/dev/null || true
python3 tools/mkmanifest.py
git status --short | grep -v "^A \|^M " | head
