#!/bin/bash
# merge an agent branch into main: union known_findings.json, regenerate MANIFEST.json
set -e
cd /verif
br=$1
export MERGE_PROPS="$2"   # optional: comma-separated property ids whose known-finding entries are taken from the branch
git merge --no-commit "$br" || true
git show "$br":known_findings.json > /tmp/kf_b.json 2>/dev/null || echo '{"findings":[],"fixed":[]}' > /tmp/kf_b.json
git show HEAD:known_findings.json > /tmp/kf_a.json
python3 - <<'PY'
import json
a=json.load(open('/tmp/kf_a.json')); b=json.load(open('/tmp/kf_b.json'))
import os
props=set(filter(None,os.environ.get('MERGE_PROPS','').split(',')))
ids={f['id'] for f in a['findings']}
bids={f['id'] for f in b.get('findings',[])}
# entries of the branch's own properties: the branch version wins (edited keys, removed entries)
a['findings']=[f for f in a['findings'] if not (f['property'] in props and f['id'] not in bids)]
for f in b.get('findings',[]):
    if f['id'] not in ids:
        if not props or f['property'] in props: a['findings'].append(f)
    elif f['property'] in props:
        a['findings']=[f if g['id']==f['id'] else g for g in a['findings']]
for s in b.get('fixed',[]):
    if s not in a['fixed']: a['fixed'].append(s)
json.dump(a,open('/verif/known_findings.json','w'),indent=1)
print('findings:',[f['id'] for f in a['findings']],'fixed:',len(a['fixed']))
PY
git checkout HEAD -- evidence 2>/dev/null || true
python3 tools/mkmanifest.py
git status --short | grep -v "^A \|^M " | head
