#!/bin/bash
# mkwt.sh <branch> : worktree of /verif for an agent, with the Lean build output and harness cache copied (no rebuild)
set -e
br=$1; wt=/var/tmp/wt-$br
git -C /verif worktree add -q -b $br $wt main
cp -a /verif/lean/.lake $wt/lean/.lake
mkdir -p $wt/.cache && cp -a /verif/.cache/. $wt/.cache/ 2>/dev/null || true
rm -f $wt/.cache/*.lock
echo $wt
