#!/bin/bash
# runtest.sh <repo-tree> <Test/...cpp> [extra src...] : compile one Shark unit test against a tree and run it
wt=$1; t=$2; shift 2
exe=/var/tmp/t_$(basename $t .cpp)_$$
g++ -std=c++11 -O1 -DNDEBUG -w -fopenmp -DBOOST_TIMER_ENABLE_DEPRECATED -I$wt/include -I/repo/_build/include -DBOOST_TEST_DYN_LINK $wt/$t $wt/src/Core/Random.cpp $(for s in "$@"; do echo $wt/$s; done) -o $exe -lboost_unit_test_framework -lboost_serialization -lboost_system -lboost_filesystem -lopenblas 2>/dev/null || { echo "COMPILE-FAILED $t"; exit 2; }
mkdir -p $wt/Test/test_output
(cd $wt/Test && OMP_NUM_THREADS=4 OPENBLAS_NUM_THREADS=1 timeout 1800 $exe 2>&1 | tail -n 3); rc=${PIPESTATUS[0]}
rm -f $exe; echo "$t done"
